#!/usr/bin/env python
"""Reproducers for the C11 hunt.  Run: PYTHONPATH=/tmp/wth-C11 /venv/bin/python _hunt/repro.py"""
import logging
import sys
import warnings

logging.disable(logging.CRITICAL)
warnings.simplefilter("ignore")
import bibtexparser  # noqa: E402
from bibtexparser.model import String  # noqa: E402


def entry_values(lib, key):
    for e in lib.entries:
        if e.key == key:
            return {f.key: f.value for f in e.fields}, e.parser_metadata.get("ResolveStringReferences")
    return None, None


def finding1():
    """@string / entry headers that the splitter's mark regex does not recognise
    (newline between type and '{', blank after '@', parenthesis delimiters)."""
    violated = []
    docs = [
        '@string\n{foo = "X"}\n@misc{e, a = foo}',
        '@string\r\n{foo = "X"}\r\n@misc{e, a = foo}',
        '@ string{foo = "X"}\n@misc{e, a = foo}',
        '@string(foo = "X")\n@misc{e, a = foo}',
        '@string{foo = "X"}\n@misc\n{e, a = foo}',
        '@string{foo = "X"}\n@misc(e, a = foo)',
    ]
    for d in docs:
        lib = bibtexparser.parse_string(d)
        vals, rec = entry_values(lib, "e")
        if vals is None or vals.get("a") != "X" or rec != ["a"] or len(lib.strings) != 1:
            violated.append(d)
    return violated


def finding2():
    """Entries demoted to failed blocks (duplicate entry key / duplicate field key)
    are skipped by the resolver."""
    violated = []
    d = '@string{foo = "X"}\n@misc{e, a = foo}\n@misc{e, b = foo}'
    lib = bibtexparser.parse_string(d)
    inner = lib.failed_blocks[0].ignore_error_block if lib.failed_blocks else None
    if inner is None or inner.fields[0].value != "X" or inner.parser_metadata.get("ResolveStringReferences") != ["b"]:
        violated.append(d)
    d = '@string{foo = "X"}\n@misc{e, a = foo, a = {foo}}'
    lib = bibtexparser.parse_string(d)
    inner = lib.failed_blocks[0].ignore_error_block if lib.failed_blocks else None
    if inner is None or [f.value for f in inner.fields] != ["X", "foo"]:
        violated.append(d)
    return violated


def finding3():
    """Second default parse into an existing library resolves enclosed values of the first document."""
    lib = bibtexparser.parse_string('@string{foo = "X"}\n@misc{e, b = {foo}, c = "foo"}')
    v1, _ = entry_values(lib, "e")
    lib2 = bibtexparser.parse_string("@misc{e2, a = foo}", library=lib)
    v2, rec = entry_values(lib2, "e")
    if v1 == {"b": "foo", "c": "foo"} and v2 != v1:
        return [(v1, v2, rec)]
    return []


def finding4():
    """'@string blocks stay in the library unchanged'."""
    violated = []
    d = '@string{foo = "X"}\n@string{foo = "Y"}\n@misc{e, a = foo}'
    raw = bibtexparser.parse_string(d, parse_stack=[])
    lib = bibtexparser.parse_string(d)
    # (a) the duplicated definition is no String block of the library
    n_string_blocks = sum(isinstance(b, String) for b in lib.blocks)
    if n_string_blocks != 2:
        violated.append(("duplicate @string demoted", n_string_blocks))
    # (b) the surviving block differs from the block as split (value and metadata)
    if lib.strings[0] != raw.strings[0]:
        violated.append(("String changed", raw.strings[0].value, lib.strings[0].value, lib.strings[0].parser_metadata))
    return violated


def main():
    rc = 0
    for n, fn in enumerate([finding1, finding2, finding3, finding4], start=1):
        v = fn()
        if v:
            rc = 1
            print(f"FINDING {n}: VIOLATED")
            for item in v:
                print("    ", repr(item))
        else:
            print(f"FINDING {n}: holds")
    return rc


if __name__ == "__main__":
    sys.exit(main())
