#!/usr/bin/env python
"""Reproducers for property C18 (LaTeX en/decoding middlewares).

Run:  PYTHONPATH=/tmp/wth-C18 /venv/bin/python /tmp/wth-C18/_hunt/repro.py
Prints one line per finding; exit code 1 if any finding is violated.
"""
import copy
import logging
import sys

logging.disable(logging.CRITICAL)

from pylatexenc.latex2text import LatexNodes2Text, MacroTextSpec, get_default_latex_context_db
from pylatexenc.latexencode import RULE_CALLABLE, UnicodeToLatexConversionRule, UnicodeToLatexEncoder

from bibtexparser.library import Library
from bibtexparser.middlewares.latex_encoding import LatexDecodingMiddleware, LatexEncodingMiddleware
from bibtexparser.middlewares.names import NameParts
from bibtexparser.model import Entry, Field, MiddlewareErrorBlock, String

EXCLUDED = ["--", "``", "''", "!`", "?`", "^", '"']


def round_trip_fails(text, **enc_options):
    """True iff decode(encode(text)) != text in an entry field, an @string or a name part."""
    assert not any(x in text for x in EXCLUDED), "reproducer must stay inside the quantifier"
    lib = Library(
        [
            Entry("article", "k", [Field("title", text), Field("author", NameParts(last=[text]))]),
            String("s", text),
        ]
    )
    lib = LatexEncodingMiddleware(**enc_options).transform(lib)
    lib = LatexDecodingMiddleware().transform(lib)
    entry, string = lib.blocks
    if not isinstance(entry, Entry) or not isinstance(string, String):
        return True
    got = [entry.fields[0].value, entry.fields[1].value.last[0], string.value]
    return any(g != text for g in got)


def f1_url_special_characters():
    texts = [
        "http://example.com/~user/index.html",  # '~' -> U+00A0
        "http://example.com/a%20b",  # '%' starts a comment, rest of value is lost
        "https://example.com/q?a=1&b=2",  # '&' -> three blanks
        "see (http://example.com/a%20b) for details",
    ]
    return all(round_trip_fails(t) for t in texts) and not any(
        round_trip_fails(t, enclose_urls=False) for t in texts
    )


def f2_double_dollar():
    texts = ["$$x$$", "$x$ and $$y$$", "$$$"]
    return all(round_trip_fails(t) for t in texts) and not any(
        round_trip_fails(t, keep_math=False) for t in texts
    )


def f3_percent_or_brace_between_two_dollars():
    texts = ["Save $5 or 10% of $50 at the café", "a $x%$ b_c", "${$ é"]
    return all(round_trip_fails(t) for t in texts) and not any(
        round_trip_fails(t, keep_math=False) for t in texts
    )


def f4_accented_latin_letters_not_injective():
    texts = ["Szűcs", "FŰRÉSZ", "Ħal Għaxaq", "paraŀlel"]
    return all(round_trip_fails(t, keep_math=km, enclose_urls=eu) for t in texts for km in (True, False) for eu in (True, False))


def f5_error_block_holds_partially_converted_entry():
    violated = []
    for inplace in (True, False):
        entry = Entry("article", "k", [Field("title", "caf\\'e"), Field("note", "\\textcolor")])
        original = copy.deepcopy(entry)
        out = LatexDecodingMiddleware(allow_inplace_modification=inplace).transform(Library([entry]))
        block = out.blocks[0]
        if not isinstance(block, MiddlewareErrorBlock):
            return False  # the failure is not there at all: reproducer no longer applies
        held = block.ignore_error_block
        violated.append([(f.key, f.value) for f in held.fields] != [(f.key, f.value) for f in original.fields])
    return all(violated)


def f6_failure_with_empty_message_is_swallowed():
    def ascii_only(s, pos):
        if ord(s[pos]) > 127:
            raise ValueError()  # str(e) == ""
        return None

    encoder = UnicodeToLatexEncoder(
        conversion_rules=[UnicodeToLatexConversionRule(RULE_CALLABLE, ascii_only), "defaults"]
    )
    lib = Library([Entry("article", "k", [Field("title", "naïve")]), String("s", "naïve")])
    out = LatexEncodingMiddleware(encoder=encoder).transform(lib)
    enc_swallowed = not any(isinstance(b, MiddlewareErrorBlock) for b in out.blocks)

    db = get_default_latex_context_db()

    def unsupported(node, l2tobj):
        assert False  # AssertionError without message: str(e) == ""

    db.add_context_category("strict", prepend=True, macros=[MacroTextSpec("cite", simplify_repl=unsupported)])
    lib = Library([Entry("article", "k", [Field("title", "see \\cite{x}")]), String("s", "\\cite{x}")])
    out = LatexDecodingMiddleware(decoder=LatexNodes2Text(latex_context=db)).transform(lib)
    dec_swallowed = not any(isinstance(b, MiddlewareErrorBlock) for b in out.blocks)
    return enc_swallowed and dec_swallowed


def f7_entry_becomes_duplicate_block():
    a = Entry("article", "a", [Field("title", "é")])
    b = Entry("article", "b", [Field("title", "ü")])
    lib = Library([a, b])
    b.key = "a"  # public setter; the library now holds two entries with one key
    before = [type(x).__name__ for x in lib.blocks]
    out = LatexEncodingMiddleware().transform(lib)
    after = [type(x).__name__ for x in out.blocks]
    return before != after


FINDINGS = [
    f1_url_special_characters,
    f2_double_dollar,
    f3_percent_or_brace_between_two_dollars,
    f4_accented_latin_letters_not_injective,
    f5_error_block_holds_partially_converted_entry,
    f6_failure_with_empty_message_is_swallowed,
    f7_entry_becomes_duplicate_block,
]

if __name__ == "__main__":
    any_violated = False
    for n, f in enumerate(FINDINGS, 1):
        try:
            violated = bool(f())
        except Exception as e:  # an escaping exception is itself a violation of the containment clause
            violated = True
            print(f"  (finding {n} raised {type(e).__name__}: {e})")
        any_violated |= violated
        print(f"FINDING {n}: {'VIOLATED' if violated else 'holds'}")
    sys.exit(1 if any_violated else 0)
