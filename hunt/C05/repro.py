#!/usr/bin/env python
"""Reproducers for property C05 (parse -> write -> parse preserves content; written text is a fixpoint).

Run:  PYTHONPATH=/tmp/wth-C05 /venv/bin/python /tmp/wth-C05/_hunt/repro.py
Prints `FINDING <n>: VIOLATED|holds` per finding; exit code 1 if any is violated.
"""
import logging
import sys
import warnings

logging.disable(logging.CRITICAL)
warnings.simplefilter("ignore")

import bibtexparser
from bibtexparser import model
from bibtexparser.writer import BibtexFormat


def snap(lib):
    out = []
    for b in lib.blocks:
        if isinstance(b, model.ParsingFailedBlock):
            out.append((type(b).__name__, b.raw))
        elif isinstance(b, model.Entry):
            out.append(("Entry", b.entry_type, b.key, tuple((f.key, f.value) for f in b.fields)))
        elif isinstance(b, model.String):
            out.append(("String", b.key, b.value))
        elif isinstance(b, model.Preamble):
            out.append(("Preamble", b.value))
        elif isinstance(b, model.ExplicitComment):
            out.append(("ExplicitComment", b.comment))
        elif isinstance(b, model.ImplicitComment):
            out.append(("ImplicitComment", b.comment))
        else:
            out.append(("?", repr(b)))
    return out


def make_format(**kw):
    f = BibtexFormat()
    for k, v in kw.items():
        setattr(f, k, v)
    return f


def roundtrip_violated(doc, **fmt_kw):
    """True iff the statement fails on `doc`: blocks of parse 1 != blocks of parse 2, or write 2 != write 1."""
    fmt = make_format(**fmt_kw) if fmt_kw else None
    l1 = bibtexparser.parse_string(doc)
    w1 = bibtexparser.write_string(l1, bibtex_format=fmt)
    l2 = bibtexparser.parse_string(w1)
    w2 = bibtexparser.write_string(l2, bibtex_format=fmt)
    return snap(l1) != snap(l2) or w1 != w2


FINDINGS = {
    # 1: '@' + optional word + optional blanks + '{' inside a value / comment / preamble is taken as a block start
    1: [
        ("@article{k, title = {Working @ {Google}}}", {}),
        ('@preamble{"\\makeatletter\\@ifundefined{foo}{a}{b}"}', {}),
        ("@comment{see @misc{x} below}\n@misc{z, note = {n}}", {}),
        ('@string{s = "a @b{c}"}', {}),
    ],
    # 2: failed blocks (duplicate @string name, duplicate field name, ...) are written with an extra comment line
    2: [
        ('@string{a = "x"}\n@string{a = "y"}\n@article{k, journal = a}', {}),
        ("@article{k, note = {1}, note = {2}}", {}),
        ("@comment{an unbalanced { brace}\n@misc{z, note = {n}}", {}),
        ("@article{a=b, title = {x}}", {}),
    ],
    # 3: backslash-escaped brace convention: quote context tolerates a surplus '}', brace context does not
    3: [
        ('@article{k, title = "a \\{b} c"}\n@misc{z, note = {n}}', {}),
        ('@article{k, note = "\\{}", year = 2000}', {}),
    ],
    # 4: strip() of comment / key exposes a trailing backslash that escapes the delimiter the writer adds
    4: [
        ("@comment{a\\ }\n@misc{z, note = {n}}", {}),
        ("@article{k\\ , title = {x}}", {}),
    ],
    # 5: entry type lower-casing: 'İ'.lower() == 'i' + U+0307, which the block-start regex does not match
    5: [
        ("@İ{k, title = {x}}", {}),
    ],
    # 6: non-blank indent / block_separator
    6: [
        ("@article{k, title = {x}}\n\nfree text\n\n@misc{z, note = {n}}", {"block_separator": "% ----\n"}),
        ("@article{k, title = {x}}", {"indent": "\u200b"}),
    ],
}


def main():
    any_violated = False
    for n, cases in FINDINGS.items():
        violated = False
        for doc, fmt_kw in cases:
            try:
                if roundtrip_violated(doc, **fmt_kw):
                    violated = True
            except Exception as e:  # an exception during the round trip is a violation, too
                violated = True
        any_violated = any_violated or violated
        print(f"FINDING {n}: {'VIOLATED' if violated else 'holds'}")
    return 1 if any_violated else 0


if __name__ == "__main__":
    sys.exit(main())
