#!/usr/bin/env python
"""Reproducers for property C10 (enclosing removal / addition).
Run: PYTHONPATH=/tmp/wth-C10 /venv/bin/python /tmp/wth-C10/_hunt/repro.py
"""
import logging
import sys

logging.disable(logging.CRITICAL)

import bibtexparser
from bibtexparser.library import Library
from bibtexparser.middlewares.enclosing import AddEnclosingMiddleware as Add
from bibtexparser.middlewares.enclosing import RemoveEnclosingMiddleware as Remove
from bibtexparser.model import Entry, Field, String
from bibtexparser.splitter import Splitter
from bibtexparser.writer import write


def split_field(raw):
    """Let the splitter produce the field value `raw`; assert it really does."""
    lib = Splitter("@article{k,\n f = %s\n}" % raw).split()
    assert len(lib.blocks) == 1 and isinstance(lib.blocks[0], Entry), lib.blocks
    assert [x.value for x in lib.blocks[0].fields] == [raw]
    return lib


def split_string(raw):
    lib = Splitter("@string{k = %s}" % raw).split()
    assert len(lib.blocks) == 1 and isinstance(lib.blocks[0], String), lib.blocks
    assert lib.blocks[0].value == raw
    return lib


def f1():
    """Values that start with {/" and end with }/" but whose first and last delimiter
    are not a pair: must be left alone ('nothing if there is none')."""
    bad = []
    for raw in ["{a} # {b}", '"a" # "b"', "{a} # b\\}"]:
        lib = Remove().transform(split_field(raw))
        e = lib.entries[0]
        got = (e.fields[0].value, e.parser_metadata["removed_enclosing"]["f"])
        if got != (raw, "no-enclosing"):
            bad.append((raw, got))
    return bad


def f2():
    """Python int in a numeric field, enclose_integers=False: stays unenclosed 'without error',
    and can be written into an entry and re-parsed."""
    bad = []
    for reuse in (True, False):
        for default in "{\"":
            lib = Library([Entry("article", "k", [Field("year", 2020)])])
            mw = Add(reuse_previous_enclosing=reuse, enclose_integers=False, default_enclosing=default)
            try:
                text = bibtexparser.write_string(lib, unparse_stack=[mw])
                re_ = Splitter(text).split()
                ok = len(re_.entries) == 1 and [(x.key, x.value) for x in re_.entries[0].fields] == [("year", "2020")]
                if not ok:
                    bad.append((reuse, default, text))
            except Exception as ex:  # TypeError from "".join in the writer
                bad.append((reuse, default, repr(ex)))
    return bad


def f3():
    """Python ints that str.isdigit() does not recognise are enclosed although enclose_integers=False."""
    bad = []
    for v in (-5, True):
        lib = Library([Entry("article", "k", [Field("year", v)])])
        out = Add(reuse_previous_enclosing=False, enclose_integers=False, default_enclosing="{").transform(lib)
        got = out.entries[0].fields[0].value
        if str(got) != str(v):
            bad.append((v, got))
    return bad


def f4():
    """Removing the enclosing from a Python-int value: nothing to strip, no error."""
    bad = []
    try:
        lib = Remove().transform(Library([Entry("article", "k", [Field("year", 2020)])]))
        e = lib.entries[0]
        if e.fields[0].value != 2020 or e.parser_metadata["removed_enclosing"]["year"] != "no-enclosing":
            bad.append((e.fields[0].value, e.parser_metadata))
    except Exception as ex:
        bad.append(repr(ex))
    return bad


def f5():
    """Entry (as produced by the splitter) with two fields of the same key and different
    enclosings: remove -> add(reuse) must restore every value exactly."""
    bad = []
    for src in ['@article{k,\n a = {x},\n a = "y"\n}', "@article{k,\n a = jan,\n a = {x}\n}"]:
        lib = Splitter(src).split()
        ent = lib.blocks[0].ignore_error_block  # DuplicateFieldKeyBlock wraps the Entry
        orig = [x.value for x in ent.fields]
        lib2 = Remove().transform(Library([ent]))
        lib3 = Add(reuse_previous_enclosing=True, enclose_integers=True, default_enclosing="{").transform(lib2)
        back = [x.value for x in lib3.entries[0].fields]
        if back != orig:
            bad.append((orig, back))
    return bad


def f6():
    """Literally brace-balanced value (one '{', one '}', properly nested) with a backslash in
    front of the opening brace; default '{'; re-parse must give one field, same content."""
    bad = []
    raw = '"\\{}"'
    lib = Remove().transform(split_field(raw))  # value is now \{}
    v = lib.entries[0].fields[0].value
    assert v == "\\{}"
    ent = Entry("article", "k", [Field("title", v)])
    out = Add(reuse_previous_enclosing=False, enclose_integers=True, default_enclosing="{").transform(Library([ent]))
    text = write(out)
    re_ = Remove().transform(Splitter(text).split())
    ok = (
        len(re_.blocks) == 1
        and len(re_.entries) == 1
        and [(x.key, x.value) for x in re_.entries[0].fields] == [("title", v)]
    )
    if not ok:
        bad.append((text, [type(b).__name__ for b in re_.blocks], [(x.key, x.value) for e in re_.entries for x in e.fields]))
    return bad


def f7():
    """Very large Python int (> 4300 digits): 'without error'."""
    bad = []
    for ei in (True, False):
        try:
            Add(reuse_previous_enclosing=False, enclose_integers=ei, default_enclosing="{").transform(
                Library([Entry("article", "k", [Field("year", 10**5000)])])
            )
        except Exception as ex:
            bad.append((ei, type(ex).__name__))
    return bad


def f8():
    """String value "a\\" : for the splitter the final quote is backslash-escaped (that is why
    @string{k = "a\\"} ends at the brace), so first and last quote are no pair."""
    bad = []
    raw = '"a\\"'
    lib = Remove().transform(split_string(raw))
    s = lib.strings[0]
    got = (s.value, s.parser_metadata["removed_enclosing"])
    if got != (raw, "no-enclosing"):
        bad.append((raw, got))
    return bad


def main():
    violated = False
    for n, fn in enumerate([f1, f2, f3, f4, f5, f6, f7, f8], start=1):
        try:
            bad = fn()
        except Exception as ex:  # reproducer itself broke: treat as not reproduced
            print(f"FINDING {n}: holds   (reproducer error: {ex!r})")
            continue
        if bad:
            violated = True
            print(f"FINDING {n}: VIOLATED   {bad[:3]!r}"[:400])
        else:
            print(f"FINDING {n}: holds")
    sys.exit(1 if violated else 0)


if __name__ == "__main__":
    main()
