#!/usr/bin/env python
"""Reproducers for property C04 (run with PYTHONPATH pointing at the library under test)."""
import logging
import sys

logging.disable(logging.CRITICAL)

import bibtexparser
from bibtexparser.model import (DuplicateBlockKeyBlock, DuplicateFieldKeyBlock, Entry,
                                ExplicitComment, ImplicitComment, ParsingFailedBlock, Preamble,
                                String)
from bibtexparser.splitter import Splitter


def canon(b, off=0):
    """Comparable view of a block; line numbers are taken relative to `off`."""
    d = {"t": type(b).__name__, "raw": b.raw, "line": b.start_line - off}
    if isinstance(b, Entry):
        d.update(et=b.entry_type, key=b.key,
                 fields=[(f.key, f.value, f.start_line - off) for f in b.fields])
    elif isinstance(b, String):
        d.update(key=b.key, value=b.value)
    elif isinstance(b, Preamble):
        d.update(value=b.value)
    elif isinstance(b, (ExplicitComment, ImplicitComment)):
        d.update(comment=b.comment)
    elif isinstance(b, DuplicateFieldKeyBlock):
        d.update(dk=sorted(b.duplicate_keys))
    elif isinstance(b, DuplicateBlockKeyBlock):
        d.update(key=b.key)
    elif isinstance(b, ParsingFailedBlock):
        d.update(err=getattr(b.error, "abort_reason", str(b.error)))
    return d


def split(s, off=0):
    return [canon(b, off) for b in Splitter(s).split().blocks]


def suffix_ok(x, d2):
    """Clause 2: the blocks of d2 after `x + newline` equal the blocks of d2 on its own."""
    ref = split(d2)
    got = split(x + "\n" + d2, off=x.count("\n") + 1)[-len(ref):]
    return got == ref


def prefix_ok(d1, x):
    """Clause 1: the blocks parsed for d1 are unchanged when x follows."""
    ref = split(d1)
    return split(d1 + x)[: len(ref)] == ref


def concat_ok(d1, d2):
    """Clause 3: blocks(d1 + newline + d2) == blocks(d1) + blocks(d2)."""
    return split(d1 + "\n" + d2) == split(d1) + split(d2, off=-(d1.count("\n") + 1))


def finding1():
    # duplicate block keys: Library._add_to_dicts, reached from Splitter.split
    ok = True
    # (a) concatenation of two well-formed documents that share an entry key
    ok &= concat_ok("@article{k, title={A}}", "@article{k, title={B}}")
    # (b) same for @string keys
    ok &= concat_ok('@string{a = "x"}', '@string{a = "y"}\n@misc{z}')
    # (c) garbage containing a (corrupted copy of a) block with the key of the following block
    ok &= suffix_ok('garbage @misc{dup,} {"', "@book{dup, title = {T}}")
    ok &= suffix_ok("@book{dup, title = T}} {", "@book{dup, title = {T}}\n@misc{other}")
    return ok


def finding2():
    # '@word{' inside a (BibTeX-legal) braced field value is taken as a block start
    ok = True
    ok &= prefix_ok("@misc{a, t = {see @b{c} }}", "\njunk")
    ok &= prefix_ok('@misc{a, t = {x @y{k, f = "z}}', '"}')
    return ok


def finding3():
    # parse_string with the default parse stack: a @string in X changes a following block
    def ps(s):
        out = []
        for b in bibtexparser.parse_string(s).blocks:
            c = {"t": type(b).__name__, "raw": b.raw}
            if isinstance(b, Entry):
                c["fields"] = [(f.key, f.value) for f in b.fields]
            out.append(c)
        return out

    d2 = "@misc{k, t = foo}"
    ref = ps(d2)
    got = ps('@string{foo = "bar"}' + "\n" + d2)[-len(ref):]
    return got == ref


def main():
    violated = False
    for n, f in enumerate([finding1, finding2, finding3], start=1):
        try:
            ok = f()
        except Exception as e:  # a crash is a violation as well
            print(f"FINDING {n}: VIOLATED (exception {e!r})")
            violated = True
            continue
        print(f"FINDING {n}: {'holds' if ok else 'VIOLATED'}")
        violated |= not ok
    return 1 if violated else 0


if __name__ == "__main__":
    sys.exit(main())
