#!/usr/bin/env python
"""Reproducers for property C02 (run with PYTHONPATH=<worktree> /venv/bin/python repro.py)."""
import logging
import sys

logging.disable(logging.CRITICAL)
from bibtexparser.splitter import Splitter
from bibtexparser.model import (Entry, ExplicitComment, ImplicitComment,
                                ParsingFailedBlock, Preamble, String)


def blocks(src):
    out = []
    for b in Splitter(src).split().blocks:
        if isinstance(b, ParsingFailedBlock):
            out.append(("FAILED", type(b).__name__))
        elif isinstance(b, Entry):
            out.append(("entry", b.entry_type, b.key, [(f.key, f.value) for f in b.fields]))
        elif isinstance(b, String):
            out.append(("string", b.key, b.value))
        elif isinstance(b, Preamble):
            out.append(("preamble", b.value.strip()))
        elif isinstance(b, ExplicitComment):
            out.append(("comment", b.comment))
        elif isinstance(b, ImplicitComment):
            out.append(("implicit", b.comment))
    return out


E = lambda t, k, f: ("entry", t, k, f)

FINDINGS = {
    # 1: '@' + \w* + [ \t]* + '{' inside a value / string / preamble / comment is taken as a block start
    1: [
        ('@article{k, a = {x@{}y}}', [E("article", "k", [("a", "{x@{}y}")])]),
        ('@article{k, a = {\\begin{tabular}{@{}ll@{}}\\end{tabular}}, b = {c}}',
         [E("article", "k", [("a", "{\\begin{tabular}{@{}ll@{}}\\end{tabular}}"), ("b", "{c}")])]),
        ('@article{k, a = "mail me @home{x}"}', [E("article", "k", [("a", '"mail me @home{x}"')])]),
        ('@article{k, a = {p @ {q}}}', [E("article", "k", [("a", "{p @ {q}}")])]),
        ('@preamble{"\\makeatletter\\@ifundefined{foo}{}{}"}',
         [("preamble", '"\\makeatletter\\@ifundefined{foo}{}{}"')]),
        ('@string{s = "a@b{c}"}', [("string", "s", '"a@b{c}"')]),
        ('@comment{a @b{c} d}', [("comment", "a @b{c} d")]),
    ],
    # 2: only blank/tab is accepted between '@type' and '{', and nothing between '@' and the type
    2: [
        ('@article\n{k, a = {b}}', [E("article", "k", [("a", "{b}")])]),
        ('@article\r\n{k, a = {b}}', [E("article", "k", [("a", "{b}")])]),
        ('@string\n{s = "x"}', [("string", "s", '"x"')]),
        ('@preamble\n{"x"}', [("preamble", '"x"')]),
        ('@comment\n{x}', [("comment", "x")]),
        ('@ article{k, a = {b}}', [E("article", "k", [("a", "{b}")])]),
    ],
    # 3: a second @string / entry with an already used key becomes a (failed) DuplicateBlockKeyBlock
    3: [
        ('@string{s = "a"}\n@string{s = "b"}', [("string", "s", '"a"'), ("string", "s", '"b"')]),
        ('@article{k, a = {b}}\n@book{k, c = {d}}',
         [E("article", "k", [("a", "{b}")]), E("book", "k", [("c", "{d}")])]),
    ],
    # 4: an entry repeating a field key becomes a (failed) DuplicateFieldKeyBlock
    4: [
        ('@article{k, a = {b}, a = {c}}', [E("article", "k", [("a", "{b}"), ("a", "{c}")])]),
    ],
    # 5: entry keys containing '=' or '"' (legal in BibTeX cite keys) abort the block
    5: [
        ('@article{k=1, a = {b}}', [E("article", "k=1", [("a", "{b}")])]),
        ('@article{O"Brien2020, a = {b}}', [E("article", 'O"Brien2020', [("a", "{b}")])]),
    ],
    # 6: entry types with characters outside \w (legal BibTeX identifiers) are not recognised at all
    6: [
        ('@in-proceedings{k, a = {b}}', [E("in-proceedings", "k", [("a", "{b}")])]),
        ('@book.chapter{k, a = {b}}', [E("book.chapter", "k", [("a", "{b}")])]),
    ],
}

any_violated = False
for n, cases in sorted(FINDINGS.items()):
    violated = False
    for src, expected in cases:
        got = blocks(src)
        if got != expected:
            violated = True
            if "-v" in sys.argv:
                print("   input   ", repr(src))
                print("   expected", expected)
                print("   observed", got)
    print(f"FINDING {n}: {'VIOLATED' if violated else 'holds'}")
    any_violated |= violated
sys.exit(1 if any_violated else 0)
