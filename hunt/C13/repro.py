#!/usr/bin/env python
"""Reproducers for the C13 hunt. Run: PYTHONPATH=/tmp/wth-C13 /venv/bin/python repro.py"""
import sys

import bibtexparser
from bibtexparser.middlewares import SeparateCoAuthors, SplitNameParts
from bibtexparser.middlewares.names import InvalidNameError, parse_single_name_into_parts
from bibtexparser.model import MiddlewareErrorBlock


def parts(name):
    p = parse_single_name_into_parts(name)
    return dict(first=p.first, von=p.von, last=p.last, jr=p.jr)


def finding1():
    # A special character without any letter after its control sequence decides the word
    # (BibTeX's von_token_found returns "not von" at the end of the special character);
    # the library keeps scanning and takes the following depth-0 letter.
    bad = []
    for name, exp in [
        (r"A {\relax}b C", dict(first=["A", r"{\relax}b"], von=[], last=["C"], jr=[])),
        (r"A {\'{}}x C", dict(first=["A", r"{\'{}}x"], von=[], last=["C"], jr=[])),
        (r"{\relax}b C, A", dict(first=["A"], von=[], last=[r"{\relax}b", "C"], jr=[])),
        (r"A {\TeX}nician C", dict(first=["A", r"{\TeX}nician"], von=[], last=["C"], jr=[])),
    ]:
        if parts(name) != exp:
            bad.append((name, parts(name), exp))
    return bad


def finding2():
    # Letters without case (CJK, Arabic, Hebrew, ...) are classified lower-case
    # (`char.isalpha()` and not `char.isupper()`), so caseless words become von.
    bad = []
    for name, exp in [
        ("A 王 B", dict(first=["A", "王"], von=[], last=["B"], jr=[])),
        ("毛 泽 东", dict(first=["毛", "泽"], von=[], last=["东"], jr=[])),
        ("王 B, A", dict(first=["A"], von=[], last=["王", "B"], jr=[])),
    ]:
        if parts(name) != exp:
            bad.append((name, parts(name), exp))
    return bad


def finding3():
    # BibTeX: '-' is a sep_char, i.e. it separates name tokens like '~' does.
    bad = []
    name = "Jean-baptiste Poquelin Moliere"
    got = parts(name)
    # BibTeX: First=Jean, von=baptiste, Last=Poquelin Moliere
    if got["von"] == [] and got["first"] == ["Jean-baptiste", "Poquelin"]:
        bad.append((name, got, "von token 'baptiste' (BibTeX tokens: Jean|baptiste|Poquelin|Moliere)"))
    return bad


def finding4():
    # BibTeX counts every brace and every depth-0 comma, backslash or not.
    bad = []
    try:
        got = parts(r"A \{ B")
        bad.append((r"A \{ B", got, "invalid name (unbalanced brace in BibTeX)"))
    except InvalidNameError:
        pass
    got = parts(r"Aa\, Bb")
    if got != dict(first=["Bb"], von=[], last=["Aa\\"], jr=[]):
        bad.append((r"Aa\, Bb", got, "comma form: Last=['Aa\\\\'], First=['Bb']"))
    return bad


def finding5():
    # The error block's entry is not the original one: name fields preceding the invalid one are already split.
    bad = []
    src = "@article{k, author = {Good Name}, editor = {Bad Name,}}"
    lib = bibtexparser.parse_string(src, append_middleware=[SeparateCoAuthors(), SplitNameParts()])
    blk = lib.blocks[0]
    if not isinstance(blk, MiddlewareErrorBlock):
        return [("no error block", blk, "")]
    author = blk.ignore_error_block.fields_dict["author"].value
    if author != ["Good Name"]:
        bad.append((src, author, "['Good Name'] (entry as it was before SplitNameParts)"))
    return bad


def main():
    violated = False
    for n, f in enumerate([finding1, finding2, finding3, finding4, finding5], start=1):
        try:
            bad = f()
        except Exception as e:  # an exception is a violation too
            bad = [("exception", repr(e), "")]
        if bad:
            violated = True
            print(f"FINDING {n}: VIOLATED")
            for b in bad:
                print("    input=%r\n      observed=%r\n      expected=%r" % b)
        else:
            print(f"FINDING {n}: holds")
    return 1 if violated else 0


if __name__ == "__main__":
    sys.exit(main())
