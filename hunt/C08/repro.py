#!/usr/bin/env python
"""Reproducers for property C08 (Library views under add/remove/replace).
Run: PYTHONPATH=/tmp/wth-C08 /venv/bin/python repro.py"""
import sys
from bibtexparser.library import Library
from bibtexparser.model import Entry, Field, String, ExplicitComment, Preamble, DuplicateBlockKeyBlock


def E(k, t="t"):
    return Entry("article", k, [Field("title", t)])


def state(lib):
    """Identity-level snapshot of everything the statement talks about."""
    return (
        [id(b) for b in lib.blocks],
        {k: id(v) for k, v in lib.entries_dict.items()},
        {k: id(v) for k, v in lib.strings_dict.items()},
    )


def vstate(lib):
    """Value-level (==) snapshot."""
    return (list(lib.blocks), dict(lib.entries_dict), dict(lib.strings_dict))


def f1():
    """add(..., fail_on_duplicate_key=True) raises ValueError but has already mutated the library."""
    bad = []
    # single Entry
    e1, e2 = E("a", "1"), E("a", "2")
    lib = Library(); lib.add(e1)
    before, vbefore = state(lib), vstate(lib)
    try:
        lib.add(e2, fail_on_duplicate_key=True); bad.append("no raise")
    except ValueError:
        if state(lib) != before or vstate(lib) != vbefore:
            bad.append(f"single entry: {len(before[0])} -> {len(lib.blocks)} blocks, failed_blocks={len(lib.failed_blocks)}")
    # single String
    s1, s2 = String("k", "1"), String("k", "2")
    lib = Library(); lib.add(s1)
    before = state(lib)
    try:
        lib.add(s2, fail_on_duplicate_key=True)
    except ValueError:
        if state(lib) != before: bad.append("single string changed")
    # list: non-duplicates of the failed call are kept too
    lib = Library(); lib.add(e1)
    before = state(lib)
    c, e3 = ExplicitComment("c"), E("b")
    try:
        lib.add([c, e2, e3], fail_on_duplicate_key=True)
    except ValueError:
        if state(lib) != before: bad.append(f"list: entries_dict keys now {sorted(lib.entries_dict)}")
    return bad


def f2():
    """remove([...]) is not atomic: blocks before the offending one stay removed."""
    bad = []
    e1, c, p = E("a"), ExplicitComment("c"), Preamble("p")
    lib = Library(); lib.add([e1, c])
    before = state(lib)
    try:
        lib.remove([e1, p])  # p is not held
        bad.append("no raise")
    except ValueError:
        if state(lib) != before: bad.append(f"blocks {len(before[0])} -> {len(lib.blocks)}, entries_dict={lib.entries_dict}")
    lib = Library(); lib.add([e1, c])
    before = state(lib)
    try:
        lib.remove([c, c])
    except ValueError:
        if state(lib) != before: bad.append("remove([c, c]) removed c and raised")
    return bad


def f3():
    """Lookup by == (list.index / list.remove) instead of identity: wrong block is removed/replaced."""
    bad = []
    # (a) remove
    c1, c2, p = ExplicitComment("c"), ExplicitComment("c"), Preamble("p")
    lib = Library(); lib.add([c1, p, c2])
    lib.remove(c2)
    if not (len(lib.blocks) == 2 and lib.blocks[0] is c1 and lib.blocks[1] is p):
        bad.append(f"remove(c2) on [c1,p,c2] -> {lib.blocks!r}  (expected [c1, p]; differs by value, too)")
    # (b) replace position
    c1, c2, p, y = ExplicitComment("c"), ExplicitComment("c"), Preamble("p"), ExplicitComment("y")
    lib = Library(); lib.add([c1, p, c2])
    lib.replace(c2, y)
    if not (lib.blocks[2] is y and lib.blocks[0] is c1):
        bad.append(f"replace(c2,y) on [c1,p,c2] -> {lib.blocks!r}  (expected [c1, p, y])")
    # (c) failing replace leaves the same object listed twice and drops c1
    c1, c2, e1, e2 = ExplicitComment("c"), ExplicitComment("c"), E("a", "1"), E("a", "2")
    lib = Library(); lib.add([c1, c2, e1])
    before = state(lib)
    try:
        lib.replace(c2, e2, fail_on_duplicate_key=True)
        bad.append("no raise")
    except ValueError:
        ids = [id(b) for b in lib.blocks]
        if state(lib) != before or len(set(ids)) != len(ids):
            bad.append(f"failing replace: c2 listed {sum(b is c2 for b in lib.blocks)}x, c1 listed {sum(b is c1 for b in lib.blocks)}x")
    return bad


def f4():
    """A keyless block object that is already held can be inserted again -> listed twice."""
    bad = []
    c = ExplicitComment("c")
    lib = Library(); lib.add(c); lib.add(c)
    if sum(b is c for b in lib.blocks) != 1:
        bad.append(f"add(c); add(c): c listed {sum(b is c for b in lib.blocks)}x in blocks, {sum(b is c for b in lib.comments)}x in comments")
    c, p = ExplicitComment("c"), Preamble("p")
    lib = Library(); lib.add([c, p]); lib.replace(p, c)
    if sum(b is c for b in lib.blocks) != 1:
        bad.append("replace(p, c) with c held: c listed twice")
    # consequence: one remove does not un-hold it
    lib.remove(c)
    if any(b is c for b in lib.blocks):
        bad.append("after remove(c) c is still held")
    return bad


def f5():
    """Passing the live list returned by Library.blocks: remove() skips every other block."""
    bad = []
    es = [E(str(i)) for i in range(6)]
    lib = Library(); lib.add(es)
    lib.remove(lib.blocks)
    if lib.blocks:
        bad.append(f"remove(lib.blocks) left keys {[b.key for b in lib.blocks]}")
    return bad


def main():
    any_bad = False
    for n, f in enumerate([f1, f2, f3, f4, f5], 1):
        try:
            bad = f()
        except Exception as exc:  # unexpected
            bad = [f"unexpected {type(exc).__name__}: {exc}"]
        if bad:
            any_bad = True
            print(f"FINDING {n}: VIOLATED   # " + " | ".join(bad))
        else:
            print(f"FINDING {n}: holds")
    sys.exit(1 if any_bad else 0)


if __name__ == "__main__":
    main()
