"""Reproducers for the C03 hunt. Run: PYTHONPATH=/tmp/wth-C03 /venv/bin/python repro.py
Both findings are definition-dependent (low confidence); see findings.json."""
import logging
import string
import sys

logging.disable(logging.CRITICAL)
from bibtexparser.splitter import Splitter


def blocks(t):
    return Splitter(t).split().blocks


def finding1():
    # line = what str.splitlines()/universal newlines/BibTeX's input_line call a line (lone CR ends a line)
    t = "a\r@b{k}"
    bs = blocks(t)
    b = bs[-1]
    true_line = len(t[: t.index(b.raw)].splitlines(keepends=True))  # lines fully before the block
    viol = b.start_line != true_line
    t2 = "@a{k,\ra = 1}"
    e = blocks(t2)[0]
    f = e.fields[0]
    true_line2 = len(t2[: t2.index("a = 1")].splitlines(keepends=True))
    viol = viol or f.start_line != true_line2
    return viol


def finding2():
    # whitespace = string.whitespace / Unicode White_Space (U+001C..U+001F are not whitespace)
    viol = False
    for t in ["a\x1c", "\x1f", "@a{k}\x1d"]:
        covered = "".join(b.raw for b in blocks(t))
        dropped = [c for c in t if c not in covered]
        if any(c not in string.whitespace for c in dropped):
            viol = True
    return viol


def main():
    any_v = False
    for n, fn in enumerate([finding1, finding2], 1):
        v = fn()
        any_v = any_v or v
        print(f"FINDING {n}: {'VIOLATED' if v else 'holds'}")
    sys.exit(1 if any_v else 0)


if __name__ == "__main__":
    main()
