"""Reproducers for property C20. Run: PYTHONPATH=/tmp/wth-C20 /venv/bin/python repro.py"""
import copy, io, logging, os, pathlib, sys, tempfile, warnings
warnings.simplefilter("ignore")
logging.disable(logging.CRITICAL)
from bibtexparser import Library, parse_file, parse_string, write_file, write_string
from bibtexparser.middlewares.middleware import BlockMiddleware
from bibtexparser.middlewares.parsestack import default_parse_stack, default_unparse_stack
from bibtexparser.model import Block, Entry, Field, String, DuplicateBlockKeyBlock
from bibtexparser.splitter import Splitter
from bibtexparser.writer import write

TMP = tempfile.mkdtemp()
results = []

def finding(n):
    def deco(f):
        try:
            violated, detail = f()
        except Exception as e:  # a crash of the reproducer itself is reported, not counted
            violated, detail = False, f"reproducer error {type(e).__name__}: {e}"
        results.append(violated)
        print(f"FINDING {n}: {'VIOLATED' if violated else 'holds'}  -- {detail}")
        return f
    return deco

class Tag(BlockMiddleware):
    """order-sensitive probe: appends a tag to every field value"""
    def __init__(self, t):
        super().__init__(); self.t = t
    def transform_entry(self, e, l):
        for f in e.fields: f.value += self.t
        return e

class Ret(BlockMiddleware):
    """probe returning f(block) for every block"""
    def __init__(self, f):
        super().__init__(); self.f = f
    def transform_block(self, b, l):
        return self.f(b)

@finding(1)
def newline_translation():
    bad = []
    for doc in ["@article{a,\r\n title = {x\r\ny}\r\n}\r\n", "@article{a, title = {x\ry}}"]:
        for enc in ["utf-8", "latin-1", "gbk", "utf-16"]:
            p = os.path.join(TMP, "in.bib")
            data = doc.encode(enc)
            with open(p, "wb") as f: f.write(data)
            a = parse_file(p, encoding=enc)
            b = parse_string(data.decode(enc))
            if a.blocks != b.blocks:
                bad.append((enc, a.entries[0]["title"], b.entries[0]["title"]))
    return bool(bad), f"parse_file != parse_string(bytes.decode(enc)) in {len(bad)}/8 cases, e.g. {bad[:1]}"

@finding(2)
def empty_nonblock_collections():
    doc = "@article{a, title = {x}}\n@string{s = {v}}\n@preamble{p}\n@comment{c}\nimplicit"
    accepted = []
    for r in ["", b"", {}, set(), frozenset(), range(0), bytearray()]:
        try:
            lib = parse_string(doc, parse_stack=[Ret(lambda b, r=r: r)])
            accepted.append((repr(r), len(lib.blocks)))
        except TypeError:
            pass
    return bool(accepted), f"non-block results accepted without TypeError (result, #blocks left): {accepted}"

@finding(3)
def duplicate_demotion():
    doc = "@article{a, title = {x}}\n@string{s = {v}}"
    out = {}
    for name, f in [("[b, b]", lambda b: [b, b]), ("(b, deepcopy(b))", lambda b: (b, copy.deepcopy(b)))]:
        lib = parse_string(doc, parse_stack=[Ret(f)])
        out[name] = [type(b).__name__ for b in lib.blocks]
    lib0 = parse_string(doc, parse_stack=[])
    text = write_string(lib0, prepend_middleware=[Ret(lambda b: [b, b])])
    violated = any("DuplicateBlockKeyBlock" in v for v in out.values())
    return violated, f"blocks after replacement by 2 blocks: {out}; written text contains failure banner: {'WARNING Parsing failed' in text}"

@finding(4)
def one_shot_iterator_stacks():
    doc = "@article{a, title = {x}}"
    ref = parse_string(doc, append_middleware=[Tag("A"), Tag("B")]).entries[0]["title"]
    got_iter = parse_string(doc, append_middleware=iter([Tag("A"), Tag("B")])).entries[0]["title"]
    got_gen = parse_string(doc, append_middleware=(m for m in [Tag("A"), Tag("B")])).entries[0]["title"]
    wref = write_string(parse_string(doc), prepend_middleware=[Tag("A"), Tag("B")])
    wgot = write_string(parse_string(doc), prepend_middleware=iter([Tag("A"), Tag("B")]))
    sio = io.StringIO(); write_file(sio, parse_string(doc), append_middleware=iter([Tag("A"), Tag("B")]))
    # control: full stacks given as iterators ARE applied
    full = parse_string(doc, parse_stack=iter([Tag("A"), Tag("B")])).entries[0]["title"]
    violated = got_iter != ref or got_gen != ref or wgot != wref or sio.getvalue() != wref
    return violated, f"append list -> {ref!r}, append iterator -> {got_iter!r}, generator -> {got_gen!r}; prepend list -> {wref!r}, iterator -> {wgot!r}; (parse_stack iterator -> {full!r})"

@finding(5)
def generators_rejected():
    doc = "@article{a, title = {x}}"
    def gen(b):
        yield b
    outcomes = []
    for name, f in [("generator", gen), ("iter([b])", lambda b: iter([b])), ("map", lambda b: map(lambda x: x, [b]))]:
        try:
            lib = parse_string(doc, parse_stack=[Ret(f)])
            outcomes.append((name, "ok", len(lib.blocks)))
        except TypeError as e:
            outcomes.append((name, "TypeError"))
    return any(o[1] == "TypeError" for o in outcomes), f"{outcomes} (a list/tuple with the same blocks is accepted)"

@finding(6)
def pathlib_target():
    lib = parse_string("@article{a, title = {x}}")
    p = pathlib.Path(TMP) / "out.bib"
    pin = pathlib.Path(TMP) / "in2.bib"; pin.write_text("@article{a, title = {x}}")
    parse_file(pin)  # parse_file accepts a pathlib.Path
    try:
        write_file(p, lib)
        return p.read_text() != write_string(lib), "written"
    except Exception as e:
        return True, f"write_file(pathlib.Path) raises {type(e).__name__}: {e} (parse_file accepts the same Path)"

sys.exit(1 if any(results) else 0)
