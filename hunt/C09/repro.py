#!/usr/bin/env python
"""Reproducers for the C09 hunt. Run: PYTHONPATH=/tmp/wth-C09 /venv/bin/python _hunt/repro.py"""
import logging
import sys
import warnings

logging.disable(logging.CRITICAL)
warnings.simplefilter("ignore")

import bibtexparser
import bibtexparser.middlewares as mw
from bibtexparser.middlewares.parsestack import default_parse_stack
from bibtexparser.model import (
    DuplicateBlockKeyBlock,
    DuplicateFieldKeyBlock,
    Entry,
    String,
)


def kinds(lib):
    return [type(b).__name__ for b in lib.blocks]


def f1():
    """`@word{` inside a braced value / @comment aborts the block and spawns a phantom block."""
    doc = "@article{a, note={cite as @misc{b}}}\n@article{b, x={1}}"
    lib = bibtexparser.parse_string(doc)
    # statement: 2 source blocks -> 2 returned blocks, both live (keys a, b; no collision in source)
    ok = kinds(lib) == ["Entry", "Entry"] and list(lib.entries_dict) == ["a", "b"]
    doc2 = "@comment{@article{a, x={old}}}\n@article{a, x={new}}"
    lib2 = bibtexparser.parse_string(doc2)
    ok2 = kinds(lib2) == ["ExplicitComment", "Entry"] and lib2.entries_dict["a"] is lib2.blocks[1]
    return not (ok and ok2), f"{kinds(lib)} live={list(lib.entries_dict)} | {kinds(lib2)}"


def f2():
    """Non-inplace block middleware: previous_block is a stale private copy, not the first block."""
    doc = "@article{a, x={1}}\n@article{a, x={2}}\n@string{s = {1}}\n@string{s = {2}}"
    lib = bibtexparser.parse_string(
        doc, parse_stack=default_parse_stack(allow_inplace_modification=False)
    )
    bad = []
    for b in lib.blocks:
        if isinstance(b, DuplicateBlockKeyBlock):
            first = lib.entries_dict.get(b.key) if isinstance(b.previous_block, Entry) else lib.strings_dict.get(b.key)
            if b.previous_block is not first or not any(c is b.previous_block for c in lib.blocks):
                bad.append((b.key, b.previous_block == first))
    return bool(bad), f"(key, previous_block == live first) = {bad}"


def f3():
    """A middleware error on the first entry leaves the key with no live entry while later ones stay flagged."""
    doc = "@article{a, author={A, B, C, D}}\n@article{a, author={Roe, Jane}}"
    lib = bibtexparser.parse_string(doc, append_middleware=[mw.SeparateCoAuthors(), mw.SplitNameParts()])
    dups = [b for b in lib.blocks if isinstance(b, DuplicateBlockKeyBlock)]
    violated = len(dups) == 1 and "a" not in lib.entries_dict
    return violated, f"{kinds(lib)} live={list(lib.entries_dict)}"


def f4():
    """Later entry sharing a live key AND repeating a field: not flagged as duplicate key, first block not exposed."""
    doc = "@article{a, x={1}}\n@article{a, y={2}, y={3}}"
    lib = bibtexparser.parse_string(doc)
    b = lib.blocks[1]
    exposes_first = getattr(b, "previous_block", None) is lib.blocks[0] or getattr(
        getattr(b, "ignore_error_block", None), "previous_block", None
    ) is lib.blocks[0]
    return not exposes_first, f"{kinds(lib)} previous_block exposed={exposes_first}"


def f5():
    """A leading byte-order mark becomes an extra ImplicitComment block."""
    doc = "\ufeff@article{a, x={1}}\n@article{a, x={2}}"
    lib = bibtexparser.parse_string(doc)
    return len(lib.blocks) != 2, f"{kinds(lib)}"


def f6():
    """Blocks delimited per BibTeX as `@type<newline>{` or `@type(...)` are not blocks; adjacent ones merge."""
    out = []
    v = False
    for doc in (
        "@article\n{a, x={1}}\n@article\n{a, x={2}}",
        '@string(s = "1")\n@string(s = "2")',
    ):
        lib = bibtexparser.parse_string(doc)
        out.append(kinds(lib))
        if len(lib.blocks) != 2 or not any(isinstance(b, DuplicateBlockKeyBlock) for b in lib.blocks):
            v = True
    return v, f"{out}"


def f7():
    """Keys are str.strip()ped: Unicode 'whitespace' (NBSP, U+001F, U+2003) is removed, so distinct keys collide."""
    doc = "@article{a, x={1}}\n@article{a\u00a0, x={2}}\n@article{b, y={1}, y\u2003={2}}"
    lib = bibtexparser.parse_string(doc)
    v = kinds(lib) != ["Entry", "Entry", "Entry"]
    return v, f"{kinds(lib)} keys={[getattr(b, 'key', None) for b in lib.blocks]}"


FINDINGS = [f1, f2, f3, f4, f5, f6, f7]

if __name__ == "__main__":
    any_violated = False
    for n, f in enumerate(FINDINGS, 1):
        try:
            violated, detail = f()
        except Exception as e:  # an exception on a well-formed document is a violation too
            violated, detail = True, f"EXC {type(e).__name__}: {e}"
        any_violated |= violated
        print(f"FINDING {n}: {'VIOLATED' if violated else 'holds'}   # {detail}")
    sys.exit(1 if any_violated else 0)
