#!/usr/bin/env python
"""Reproducers for C17 hunt. Run: PYTHONPATH=/tmp/wth-C17 /venv/bin/python repro.py"""
import logging
import sys

logging.disable(logging.CRITICAL)
from bibtexparser.library import Library
from bibtexparser.model import Entry, Field
from bibtexparser.middlewares.fieldkeys import NormalizeFieldKeys
from bibtexparser.middlewares.sorting_entry_fields import (
    SortFieldsAlphabeticallyMiddleware,
    SortFieldsCustomMiddleware,
)


def lib(keys):
    return Library([Entry("article", "k", [Field(k, "v%d" % i) for i, k in enumerate(keys)])])


def pairs(library):
    return [(f.key, f.value) for f in library.entries[0].fields]


def finding1():
    # case-insensitive custom order listing two of the entry's own (case-colliding) keys
    try:
        mw = SortFieldsCustomMiddleware(order=("Author", "author"), case_sensitive=False)
        out = pairs(mw.transform(lib(["title", "Author", "author"])))
    except ValueError:
        return True  # no sorted result is returned at all
    return out != [("Author", "v1"), ("author", "v2"), ("title", "v0")]


def finding2():
    # order key and field key differ ONLY in case ('ς'.upper() == 'Σ', casefold equal),
    # but str.lower() maps them to different strings -> listed key is not put first
    bad = False
    mw = SortFieldsCustomMiddleware(order=("ς",), case_sensitive=False)
    out = pairs(mw.transform(lib(["x", "Σ"])))
    bad |= out != [("Σ", "v1"), ("x", "v0")]
    mw = SortFieldsCustomMiddleware(order=("ΟΣ",), case_sensitive=False)
    out = pairs(mw.transform(lib(["x", "οσ"])))  # "οσ".upper() == "ΟΣ"
    bad |= out != [("οσ", "v1"), ("x", "v0")]
    # same root cause in NormalizeFieldKeys: keys that differ only in case are not merged
    out = pairs(NormalizeFieldKeys().transform(lib(["ΟΣ", "οσ"])))
    assert "ΟΣ".casefold() == "οσ".casefold() and "οσ".upper() == "ΟΣ"
    bad |= len(out) != 1
    return bad


def finding3():
    # alphabetical sort is by code point: every upper-case key precedes every lower-case key
    out = pairs(SortFieldsAlphabeticallyMiddleware().transform(lib(["author", "Year", "title", "Author"])))
    keys = [k for k, _ in out]
    return [k.lower() for k in keys] != sorted(k.lower() for k in keys)


def finding4():
    # upper-case letters without a lower-case mapping stay upper-case after normalisation
    out = pairs(NormalizeFieldKeys().transform(lib(["ϒ", "\U0001d400"])))
    return any(k.isupper() or not k.islower() for k, _ in out)


if __name__ == "__main__":
    any_violated = False
    for n, f in enumerate((finding1, finding2, finding3, finding4), 1):
        v = f()
        any_violated |= v
        print("FINDING %d: %s" % (n, "VIOLATED" if v else "holds"))
    sys.exit(1 if any_violated else 0)
