#!/usr/bin/env python
"""Reproducers for property C14 (split/merge of names is an inverse pair, function pair and full stack).

Run:  PYTHONPATH=/tmp/wth-C14 /venv/bin/python /tmp/wth-C14/_hunt/repro.py
"""
import copy
import logging
import sys

logging.disable(logging.CRITICAL)

import bibtexparser
from bibtexparser.middlewares import MergeCoAuthors, MergeNameParts, SeparateCoAuthors, SplitNameParts
from bibtexparser.middlewares.names import (
    InvalidNameError,
    parse_single_name_into_parts,
    split_multiple_persons_names,
)


def in_quantifier(value):
    """valid names, non-empty last names, no word ending in an odd number of backslashes."""
    try:
        persons = [parse_single_name_into_parts(n) for n in split_multiple_persons_names(value)]
    except InvalidNameError:
        return None
    if not persons:
        return None
    for p in persons:
        if not p.last:
            return None
        for w in p.first + p.von + p.last + p.jr:
            if (len(w) - len(w.rstrip("\\"))) % 2 == 1:
                return None
    return persons


def pair_violated(value):
    persons = in_quantifier(value)
    assert persons is not None, "reproducer is outside the quantifier: %r" % value
    merged = " and ".join(p.merge_last_name_first for p in persons)
    try:
        again = [parse_single_name_into_parts(n) for n in split_multiple_persons_names(merged)]
    except InvalidNameError as e:
        again = "InvalidNameError: %s" % e.reason
    return again != persons, merged, persons, again


def stack_violated(value, field="author"):
    persons = in_quantifier(value)
    assert persons is not None
    doc = "@article{k,\n  %s = {%s}\n}\n" % (field, value)
    lib = bibtexparser.parse_string(doc, append_middleware=[SeparateCoAuthors(), SplitNameParts()])
    assert len(lib.entries) == 1 and lib.entries[0][field] == persons, "document does not carry the value"
    before = copy.deepcopy(lib.entries[0][field])
    out = bibtexparser.write_string(lib, prepend_middleware=[MergeNameParts(), MergeCoAuthors()])
    lib2 = bibtexparser.parse_string(out, append_middleware=[SeparateCoAuthors(), SplitNameParts()])
    if len(lib2.entries) != 1 or field not in lib2.entries[0].fields_dict:
        after = [type(b).__name__ for b in lib2.blocks]
    else:
        after = lib2.entries[0][field]
    return after != before, out, before, after


FINDINGS = [
    # (number, description, [values], check function pair?, check stack?)
    (1, "tie-separated word 'and' inside one name becomes a co-author separator after merging",
     ["Procter~and~Gamble, Inc.", "Smith, John~and~Jane", "And~Bb~Cc~Dd"], True, True),
    (2, "word 'and' (no tie) at the start of the value / next to a comma becomes a separator after merging",
     ["AND Aa Bb", "Aa,and Bb", "and Aa and Xx Yy"], True, True),
    (3, "merge rewrites '~'/newline to ' ' and thereby creates an '@word {' block-start mark for the splitter",
     ["@a~{x} Aa", "Aa, Xx@yy~{Z}"], False, True),
]

any_violated = False
for number, description, values, do_pair, do_stack in FINDINGS:
    violated = False
    details = []
    for v in values:
        if do_pair:
            bad, merged, persons, again = pair_violated(v)
            if bad:
                violated = True
                details.append("  pair : %r -> merged %r -> %r (expected %r)" % (v, merged, again, persons))
        if do_stack:
            bad, out, before, after = stack_violated(v)
            if bad:
                violated = True
                details.append("  stack: %r -> written %r -> re-parsed %r (expected %r)" % (v, out, after, before))
    any_violated = any_violated or violated
    print("FINDING %d: %s" % (number, "VIOLATED" if violated else "holds"))
    print("  # " + description)
    for d in details:
        print(d)

sys.exit(1 if any_violated else 0)
