#!/usr/bin/env python
"""Reproducers for the C12 hunt. Run with PYTHONPATH=/tmp/wth-C12 /venv/bin/python repro.py"""
import sys

from bibtexparser.middlewares.names import split_multiple_persons_names as split


def escape_pairs_intact(s, pieces):
    """True iff no piece boundary lies between a backslash and the character it escapes."""
    # Index of every character that is the second half of an escape pair.
    second = set()
    i = 0
    while i < len(s):
        if s[i] == "\\" and i + 1 < len(s):
            second.add(i + 1)
            i += 2
        else:
            i += 1
    pos = 0
    for p in pieces:
        j = s.index(p, pos)
        end = j + len(p)  # boundary between s[end-1] and s[end]
        if j in second or end in second:
            return False
        pos = end
    return True


def finding_1():
    violated = False
    for s in ["Knuth and D\\ ", "A\\ ", "A and B\\\t", "A\\\n"]:
        pieces = split(s)
        if not escape_pairs_intact(s, pieces):
            violated = True
    # sanity: the scanning loop itself regards the escaped blank as non-whitespace
    assert split("D\\ and X") == ["D\\ and X"]
    return violated


def main():
    results = [finding_1()]
    for n, v in enumerate(results, 1):
        print("FINDING %d: %s" % (n, "VIOLATED" if v else "holds"))
    return 1 if any(results) else 0


if __name__ == "__main__":
    sys.exit(main())
