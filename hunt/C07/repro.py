"""Reproducers for the C07 hunt. Run with PYTHONPATH=<worktree> /venv/bin/python repro.py"""
import logging
import sys
import warnings

import bibtexparser
from bibtexparser import middlewares as M

logging.disable(logging.CRITICAL)
warnings.simplefilter("ignore")


def finding_1() -> bool:
    """SortFieldsCustomMiddleware stores its own `_order` list as metadata value of every entry:
    applied to a library that it (or an instance built from the same list) already sorted,
    the copy-mode result shares that mutable metadata object with its input."""
    violated = False

    # (a) default option set (case_sensitive=False), stack [m, m]
    m = M.SortFieldsCustomMiddleware(order=("title", "author"), allow_inplace_modification=False)
    lib0 = bibtexparser.parse_string("@article{k, author = {A}, title = {T}}")
    lib1 = m.transform(lib0)  # input of the second stage
    lib2 = m.transform(lib1)  # result of the second stage
    a = lib1.entries[0].parser_metadata["sorted_fields_custom"]
    b = lib2.entries[0].parser_metadata["sorted_fields_custom"]
    if a is b and isinstance(a, list):
        violated = True
        # consequence: changing the result's metadata changes the input library (and the middleware)
        b.append("zzz")
        assert lib1.entries[0].parser_metadata["sorted_fields_custom"][-1] == "zzz"
        b.pop()

    # (b) library obtained by parsing with the copy-mode middleware appended, then the middleware once
    m = M.SortFieldsCustomMiddleware(order=("title",), allow_inplace_modification=False)
    lib = bibtexparser.parse_string("@article{k, author = {A}, title = {T}}", append_middleware=[m])
    out = m.transform(lib)
    if out.entries[0].parser_metadata["sorted_fields_custom"] is lib.entries[0].parser_metadata[
        "sorted_fields_custom"
    ]:
        violated = True

    # (c) case_sensitive=True, two distinct instances built from the same order list
    order = ["title", "author"]
    m1 = M.SortFieldsCustomMiddleware(order=order, case_sensitive=True, allow_inplace_modification=False)
    m2 = M.SortFieldsCustomMiddleware(order=order, case_sensitive=True, allow_inplace_modification=False)
    mid = m1.transform(lib0)
    res = m2.transform(mid)
    if res.entries[0].parser_metadata["sorted_fields_custom"] is mid.entries[0].parser_metadata[
        "sorted_fields_custom"
    ]:
        violated = True
    return violated


def finding_2() -> bool:
    """ParsingException.__deepcopy__ returns self: the (mutable) error object of a failed block is
    shared between the input and the result of every copy-mode middleware, the block sorter included."""
    doc = "@article{broken, title = {x\n@article{ok, title = {y}}"
    lib = bibtexparser.parse_string(doc)
    assert len(lib.failed_blocks) == 1
    violated = False
    for mw in (
        M.SortBlocksByTypeAndKeyMiddleware(),
        M.RemoveEnclosingMiddleware(allow_inplace_modification=False),
        M.ResolveStringReferencesMiddleware(allow_inplace_modification=False),
    ):
        out = mw.transform(lib)
        e_in, e_out = lib.failed_blocks[0].error, out.failed_blocks[0].error
        if e_in is e_out:
            violated = True
            old = e_in.abort_reason
            e_out.abort_reason = "changed through the result"
            assert lib.failed_blocks[0].error.abort_reason == "changed through the result"
            e_out.abort_reason = old
    return violated


def main() -> int:
    rc = 0
    for n, f in enumerate((finding_1, finding_2), start=1):
        try:
            v = f()
        except Exception as e:  # pragma: no cover
            print(f"FINDING {n}: holds (reproducer raised {type(e).__name__}: {e})")
            continue
        print(f"FINDING {n}: {'VIOLATED' if v else 'holds'}")
        if v:
            rc = 1
    return rc


if __name__ == "__main__":
    sys.exit(main())
