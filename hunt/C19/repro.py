#!/usr/bin/env python
"""Reproducers for the C19 hunt. Run: PYTHONPATH=/tmp/wth-C19 /venv/bin/python _hunt/repro.py"""
import sys
import bibtexparser

SRC = "@article{k1, author = {A}, title = {T}}"


def entry_and_model():
    e = bibtexparser.parse_string(SRC).entries[0]
    d = {f.key: f for f in e.fields}
    return e, d


def outcome(fn):
    try:
        return ("ok", fn())
    except Exception as ex:  # noqa
        return ("exc", type(ex).__name__)


def finding1():
    # del of an absent key: dict raises KeyError, Entry is silent
    violated = False
    for k in ("a", "Author"):
        e, d = entry_and_model()

        def dl():
            del e[k]

        def dm():
            del d[k]

        if outcome(dl) != outcome(dm):
            violated = True
        # delete twice
        e, d = entry_and_model()

        def dl2():
            del e["author"]
            del e["author"]

        def dm2():
            del d["author"]
            del d["author"]

        if outcome(dl2) != outcome(dm2):
            violated = True
    return violated


def finding2():
    e, d = entry_and_model()
    return outcome(lambda: e.pop("a")) != outcome(lambda: d.pop("a"))


def main():
    any_v = False
    for n, f in enumerate((finding1, finding2), 1):
        v = f()
        any_v |= v
        print("FINDING %d: %s" % (n, "VIOLATED" if v else "holds"))
    return 1 if any_v else 0


if __name__ == "__main__":
    sys.exit(main())
