"""Reproducers for property C16 (SortBlocksByTypeAndKeyMiddleware). Run with
PYTHONPATH=/tmp/wth-C16 /venv/bin/python /tmp/wth-C16/_hunt/repro.py"""
import logging
import sys
import warnings

logging.disable(logging.CRITICAL)
warnings.simplefilter("ignore")

import bibtexparser
from bibtexparser import middlewares as m
from bibtexparser.exceptions import BlockAbortedException
from bibtexparser.library import Library
from bibtexparser.middlewares.sorting_blocks import SortBlocksByTypeAndKeyMiddleware as Sort
from bibtexparser.model import (DuplicateBlockKeyBlock, Entry, ExplicitComment, Field,
                                ImplicitComment, ParsingFailedBlock, String)


def is_comment(b):
    return type(b) in (ExplicitComment, ImplicitComment)


def runs_above(blocks):
    """raw of every non-comment block -> raws of the maximal comment run directly above it"""
    res, cur = {}, []
    for b in blocks:
        if is_comment(b):
            cur.append(b.raw)
        else:
            res[b.raw] = cur
            cur = []
    return res


def finding1():
    """Trailing comment run is sorted as a pseudo-block by the type of its last comment and lands
    directly above (= becomes attached to) some other non-comment block."""
    violated = False
    # (a) hand-built, DEFAULT order, preservation on
    lib = Library([
        Entry("article", "a", [Field("title", "x")], raw="E"),
        ParsingFailedBlock(BlockAbortedException("x", 1), raw="F"),
        ImplicitComment("trailing", raw="C"),
    ])
    out = Sort().transform(lib)
    if runs_above(out.blocks) != runs_above(lib.blocks):
        violated = True
    # (b) the same through the parser, default order
    lib = bibtexparser.parse_string("@article{a, title={x}}\n@article{b, title={x}\n@article{c, title={y}}\ntrailing text\n")
    out = Sort().transform(lib)
    if runs_above(out.blocks) != runs_above(lib.blocks):
        violated = True
    # (c) no failed block needed when a comment type is ranked before the block's type
    lib = Library([String("a", "v", raw="S"), ExplicitComment("c", raw="C")])
    out = Sort((ExplicitComment, String), True).transform(lib)
    if runs_above(out.blocks) != runs_above(lib.blocks):
        violated = True
    return violated


def finding2():
    """Library(blocks=...) rebuild re-runs duplicate-key detection: Entry/String blocks whose keys became
    equal through the public key setter are replaced by DuplicateBlockKeyBlock in the sorted library."""
    violated = False
    for preserve in (True, False):
        e1 = Entry("article", "a", [Field("title", "1")])
        e2 = Entry("article", "b", [Field("title", "2")])
        lib = Library([e1, e2])
        e2.key = "a"  # public setter; library now holds two Entry blocks with key 'a'
        out = Sort(preserve_comments_on_top=preserve).transform(lib)
        tin = [type(b) for b in lib.blocks]
        tout = [type(b) for b in out.blocks]
        if sorted(t.__name__ for t in tin) != sorted(t.__name__ for t in tout):
            violated = True
        s1, s2 = String("x", "1"), String("y", "2")
        lib = Library([s1, s2])
        s2.key = "x"
        out = Sort(preserve_comments_on_top=preserve).transform(lib)
        if any(isinstance(b, DuplicateBlockKeyBlock) for b in out.blocks):
            violated = True
    return violated


def finding3():
    """deepcopy of failed blocks re-creates the stored exception: traceback is dropped and the copied
    block is != the input block under the library's own Block.__eq__ ."""
    lib = bibtexparser.parse_string(
        "@article{bad, author = {a,,,,b}}", append_middleware=[m.SeparateCoAuthors(), m.SplitNameParts()]
    )
    b = lib.blocks[0]
    o = Sort().transform(lib).blocks[0]
    return (b.error.__traceback__ is not None and o.error.__traceback__ is None) or not (o == b)


if __name__ == "__main__":
    any_violated = False
    for i, f in enumerate((finding1, finding2, finding3), 1):
        v = f()
        any_violated |= v
        print(f"FINDING {i}: {'VIOLATED' if v else 'holds'}")
    sys.exit(1 if any_violated else 0)
