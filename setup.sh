#!/usr/bin/env bash
# Offline set-up of the only third-party dependency of the monitors (icontract).
# Installs into /verif/.deps (git-ignored) from the local wheelhouse; idempotent.
set -euo pipefail
HERE="$(cd "$(dirname "${BASH_SOURCE[0]}")" && pwd)"
DEPS="$HERE/.deps"
PY="${VERIF_PYTHON:-/venv/bin/python}"
if [ -f "$DEPS/.ok" ]; then exit 0; fi
mkdir -p "$DEPS"
(
  flock 9
  if [ ! -f "$DEPS/.ok" ]; then
    PIP_NO_INDEX=1 "$PY" -m pip install --quiet --no-index --find-links /opt/veriftools/wheels \
        --target "$DEPS" --upgrade icontract >/dev/null 2>"$DEPS/pip.err" || { cat "$DEPS/pip.err" >&2; exit 3; }
    "$PY" - <<PYEOF
import sys; sys.path.insert(0, "$DEPS")
import icontract; assert icontract.__version__
PYEOF
    touch "$DEPS/.ok"
  fi
) 9>"$DEPS/.lock"
