"""Deliberate property-breaking edits of the repository (applied to a scratch copy only).

Each mutant: (id, property, file, old, new, note).  `old` must occur exactly once in the file.
They were written from the 'Breaks it must catch' lists of DESIGN.md section 5; every one keeps the
repository importable and most keep its own test suite green (run.py --tests reports that).
"""
S = "bibtexparser/splitter.py"
L = "bibtexparser/library.py"
W = "bibtexparser/writer.py"
E = "bibtexparser/entrypoint.py"
M = "bibtexparser/model.py"
MW = "bibtexparser/middlewares/middleware.py"
N = "bibtexparser/middlewares/names.py"
EN = "bibtexparser/middlewares/enclosing.py"
IP = "bibtexparser/middlewares/interpolate.py"
MO = "bibtexparser/middlewares/month.py"
SB = "bibtexparser/middlewares/sorting_blocks.py"
SF = "bibtexparser/middlewares/sorting_entry_fields.py"
FK = "bibtexparser/middlewares/fieldkeys.py"
LX = "bibtexparser/middlewares/latex_encoding.py"
PS = "bibtexparser/middlewares/parsestack.py"

MUTANTS = [
    # ---------------------------------------------------------------- C01
    ("c01-recursion-per-newline", "C01", S,
     '        while m is not None and (m.group(0) == "\\n" or self._is_backslash_escaped(m)):\n            if m.group(0) == "\\n":\n                self._current_line += 1\n            m = next(self._markiter, None)\n        if m is not None:\n            self._current_char_index = m.start()\n',
     '        if m is not None and m.group(0) == "\\n":\n            self._current_line += 1\n            return self._next_mark(accept_eof=accept_eof)\n        if m is not None and self._is_backslash_escaped(m):\n            return self._next_mark(accept_eof=accept_eof)\n        if m is not None:\n            self._current_char_index = m.start()\n',
     "recursion per newline mark again"),
    ("c01-failed-raw-none", "C01", S,
     "                            raw=self.bibstr[m.start() : e.end_index],\n                            error=e,",
     "                            raw=None if e.end_index == len(self.bibstr) and len(self.bibstr) > 4000 else self.bibstr[m.start() : e.end_index],\n                            error=e,",
     "failed block without raw for big inputs ending in an unterminated block: writer raises"),
    ("c01-raise-on-unexpected-mark", "C01", S,
     '                raise BlockAbortedException(\n                    abort_reason="Expected a `=` after entry key, "',
     '                raise ParserStateException(message="unexpected") if equals_mark.group(0) == \'"\' else BlockAbortedException(\n                    abort_reason="Expected a `=` after entry key, "',
     "raises instead of aborting when a quote follows a field key"),
    ("c01-no-progress", "C01", S,
     "        if self._unaccepted_mark is not None:\n            m = self._unaccepted_mark\n            self._unaccepted_mark = None\n",
     "        if self._unaccepted_mark is not None:\n            m = self._unaccepted_mark\n            if m.group(0) != '#':\n                self._unaccepted_mark = None\n",
     "control: harmless (never true) - must NOT fire"),
    # ---------------------------------------------------------------- C02
    ("c02-type-not-lowercased", "C02", S,
     "        entry_type = m_val[1:].strip()", "        entry_type = m.group(0)[1:].strip()", "entry type keeps source case"),
    ("c02-key-not-trimmed", "C02", S,
     "            key = self.bibstr[m.end() + 1 : comma_mark.start()].strip()\n            fields, end_index, duplicate_keys = self._move_to_end_of_entry",
     "            key = self.bibstr[m.end() + 1 : comma_mark.start()].rstrip()\n            fields, end_index, duplicate_keys = self._move_to_end_of_entry",
     "leading whitespace stays in the key"),
    ("c02-close-brace-in-quotes", "C02", S,
     '            elif next_mark.group(0) == "}" and not currently_quote_escaped and num_open_curls > 0:',
     '            elif next_mark.group(0) == "}" and num_open_curls > 0:', "no-op guard removal (control, semantics equal) - may not fire"),
    ("c02-nested-brace-ignored", "C02", S,
     '            if m.group(0) == "{":\n                num_additional_brackets += 1',
     '            if m.group(0) == "{" and num_additional_brackets < 2:\n                num_additional_brackets += 1',
     "_move_to_closed_bracket stops counting at depth 3"),
    ("c02-hash-value-trim", "C02", S,
     "            value = self.bibstr[value_start:value_end].strip()\n\n            if key in keys:",
     "            value = self.bibstr[value_start:value_end].strip().rstrip('#').rstrip()\n\n            if key in keys:",
     "control-ish: only differs for values ending in # (outside the dialect) - may not fire"),
    # ---------------------------------------------------------------- C03
    ("c02-one-char-lookbehind", "C02", S,
     "        return num_backslashes % 2 == 1\n", "        return num_backslashes >= 1\n",
     "any backslash in front of a delimiter escapes it again (one-character look-behind)"),
    ("c14-one-char-lookbehind", "C14", S,
     "        return num_backslashes % 2 == 1\n", "        return num_backslashes >= 1\n",
     "same edit, seen through the name round trip (a word ending in an escaped backslash moved in front of '}')"),
    ("c01-escape-scan-quadratic-safe", "C01", S,
     "        if m.group(0) not in (\"{\", \"}\", '\"', \",\", \"=\"):\n            return False\n",
     "        if m.group(0)[0] in \"\\n@\":\n            return False\n",
     "control: the same test written the other way round: must NOT fire"),
    ("c03-raw-off-by-one", "C03", S,
     "            raw=self.bibstr[start_index : end_bracket_index + 1],", "            raw=self.bibstr[start_index : end_bracket_index],",
     "explicit comment raw loses its closing brace"),
    ("c03-line-not-advanced-crlf", "C03", S,
     '            if m.group(0) == "\\n":\n                self._current_line += 1',
     '            if m.group(0) == "\\n":\n                self._current_line += 0 if self.bibstr[m.start() - 1] == "\\r" and self._is_quote_open else 1',
     "control (the flag is never set): must NOT fire"),
    ("c03-implicit-comment-line", "C03", S,
     "                start_line=self._implicit_comment_start_line + leading_empty_lines,",
     "                start_line=self._implicit_comment_start_line + min(leading_empty_lines, 2),",
     "implicit comment start line wrong after more than 2 blank lines"),
    ("c03-field-line-at-value", "C03", S,
     "            start_line = self._current_line\n            key_end = equals_mark.start()",
     "            key_end = equals_mark.start()",
     "placeholder replaced below"),
    # ---------------------------------------------------------------- C04
    ("c04-no-abort-in-comment", "C04", S,
     '            elif m.group(0).startswith("@"):\n                self._unaccepted_mark = m\n                raise BlockAbortedException(\n                    abort_reason=f"Unexpected block start: `{m.group(0)}`. "\n                    f"Was still looking for closing bracket",',
     '            elif m.group(0).startswith("@") and num_additional_brackets < 1:\n                self._unaccepted_mark = m\n                raise BlockAbortedException(\n                    abort_reason=f"Unexpected block start: `{m.group(0)}`. "\n                    f"Was still looking for closing bracket",',
     "no resync on @block when two braces are open in a comment/preamble/string"),
    ("c04-quote-state-sticky", "C04", S,
     '            elif next_mark.group(0).startswith("@"):\n                self._unaccepted_mark = next_mark\n\n                if currently_quote_escaped:',
     '            elif next_mark.group(0).startswith("@") and not (currently_quote_escaped and num_open_curls_in_quote > 1):\n                self._unaccepted_mark = next_mark\n\n                if currently_quote_escaped:',
     "no resync when an @block starts inside 2 braces inside a quoted value"),
    # ---------------------------------------------------------------- C05
    ("c05-remove-two-layers", "C05", EN,
     '        if value.startswith("{") and value.endswith("}"):\n            return value[1:-1], "{"',
     '        if value.startswith("{{") and value.endswith("}}") and len(value) > 6:\n            return value[2:-2], "{"\n        if value.startswith("{") and value.endswith("}"):\n            return value[1:-1], "{"',
     "two layers stripped from long double-braced values"),
    ("c06-separator-after-last", "C06", W,
     "        if i < len(library.blocks) - 1:", "        if i < len(library.blocks) - 1 or (len(library.blocks) == 3 and bibtex_format.block_separator == ' '):",
     "separator also after the last block in a rare configuration"),
    ("c05-string-without-enclosing", "C05", EN,
     "        string.value = self._enclose(\n            string.value,",
     "        string.value = string.value if ' # ' in string.value else self._enclose(\n            string.value,",
     "@string values containing ' # ' are written without enclosing"),
    # ---------------------------------------------------------------- C06
    ("c06-comma-rule", "C06", W,
     "        if bibtex_format.trailing_comma or i < len(block.fields) - 1:",
     "        if bibtex_format.trailing_comma or i < len(block.fields) - 1 or len(block.fields) == 4:",
     "trailing comma on 4-field entries"),
    ("c06-pad-off-by-one", "C06", W,
     '    return "" if length <= 0 else " " * length', '    return "" if length <= 1 else " " * length', "no padding when exactly one space is needed"),
    ("c06-auto-writes-format", "C06", W,
     "        bibtex_format = deepcopy(bibtex_format)\n        bibtex_format.value_column = auto_val",
     "        bibtex_format.value_column = auto_val", "auto alignment written into the caller's format"),
    ("c06-auto-per-first-entry", "C06", W,
     "    for entry in library.entries:\n        for key in entry.fields_dict:",
     "    for entry in library.entries[:3]:\n        for key in entry.fields_dict:", "auto column only looks at the first three entries"),
    # ---------------------------------------------------------------- C07
    ("c07-no-deepcopy-unknown-block", "C07", MW,
     "        block = block if self.allow_inplace_modification else deepcopy(block)",
     "        block = block if (self.allow_inplace_modification or not isinstance(block, (Entry, String))) else deepcopy(block)",
     "comments/preambles/failed blocks are not copied in copy mode"),
    ("c07-sorter-shallow", "C07", SB,
     "        blocks = deepcopy(library.blocks)", "        blocks = list(library.blocks) if len(library.blocks) == 1 else deepcopy(library.blocks)",
     "sorter aliases single-block libraries"),
    ("c07-default-unparse-inplace", "C07", E,
     "        unparse_stack = default_unparse_stack(allow_inplace_modification=False)",
     "        unparse_stack = default_unparse_stack(allow_inplace_modification=True)", "write_string encloses the caller's library"),
    ("c07-resolve-writes-caller", "C07", IP,
     "        if not self.allow_inplace_modification:\n            library = deepcopy(library)",
     "        if not self.allow_inplace_modification and len(library.strings) == 0:\n            library = deepcopy(library)",
     "ResolveStringReferences copy mode writes into the caller's library when strings exist"),
    # ---------------------------------------------------------------- C08
    ("c08-remove-keeps-index", "C08", L,
     "            elif isinstance(block, String):\n                del self._strings_by_key[block.key]",
     "            elif isinstance(block, String):\n                pass", "remove() leaves the string index entry"),
    ("c08-replace-appends", "C08", L,
     "        self._blocks.insert(index, block_after_add)", "        self._blocks.insert(index + (1 if isinstance(block_after_add, DuplicateBlockKeyBlock) else 0), block_after_add)",
     "replace puts duplicate wrappers one position late"),
    ("c08-no-rollback", "C08", L,
     "            self.replace(block_after_add, old_block, fail_on_duplicate_key=False)\n            raise ValueError(\"Duplicate key found.\")",
     "            raise ValueError(\"Duplicate key found.\")", "rollback removed"),
    ("c08-index-overwritten", "C08", L,
     "                prev_block_with_same_key = self._strings_by_key[block.key]\n                block = self._cast_to_duplicate(prev_block_with_same_key, block)",
     "                prev_block_with_same_key = self._strings_by_key[block.key]\n                self._strings_by_key[block.key] = block\n                block = self._cast_to_duplicate(prev_block_with_same_key, block)",
     "string index overwritten by later duplicates"),
    # ---------------------------------------------------------------- C09
    ("c09-previous-is-last-dup", "C09", L,
     "                prev_block_with_same_key = self._entries_by_key[block.key]\n                block = self._cast_to_duplicate(prev_block_with_same_key, block)",
     "                prev_block_with_same_key = self._entries_by_key[block.key]\n                block = self._cast_to_duplicate(prev_block_with_same_key, block)\n                self._last_dup = getattr(self, '_last_dup', {})\n                if block.key in self._last_dup:\n                    block._previous_block = self._last_dup[block.key]\n                self._last_dup[block.key] = block.ignore_error_block",
     "previous_block of the 3rd occurrence points at the 2nd"),
    ("c09-dupfield-third-missed", "C09", S,
     "            if key in keys:\n                duplicate_keys.add(key)",
     "            if key in keys and key not in duplicate_keys:\n                duplicate_keys.add(key)\n            elif key in duplicate_keys:\n                result.pop()",
     "third occurrence of a field key replaces the second"),
    ("c09-dupfield-registered", "C09", S,
     "        if len(duplicate_keys) > 0:\n            return DuplicateFieldKeyBlock(duplicate_keys=duplicate_keys, entry=entry)",
     "        if len(duplicate_keys) > 1:\n            return DuplicateFieldKeyBlock(duplicate_keys=duplicate_keys, entry=entry)",
     "entries with exactly one repeated field key are returned as live entries"),
    # ---------------------------------------------------------------- C10
    ("c10-int-rule-inverted", "C10", EN,
     "        elif apply_int_rule and not self._enclose_integers and str(value).isdigit():",
     "        elif apply_int_rule and self._enclose_integers and str(value).isdigit():", "integer rule inverted"),
    ("c10-reuse-ignores-no-enclosing", "C10", EN,
     "        if self._reuse_previous_enclosing and metadata_enclosing is not None:",
     "        if self._reuse_previous_enclosing and metadata_enclosing is not None and metadata_enclosing != \"no-enclosing\":",
     "reuse ignores recorded no-enclosing"),
    ("c10-wrong-kind-recorded", "C10", EN,
     "        if len(value) >= 2 and value.startswith('\"') and value.endswith('\"'):\n            return value[1:-1], '\"'",
     "        if len(value) >= 2 and value.startswith('\"') and value.endswith('\"'):\n            return value[1:-1], '{' if '#' in value else '\"'",
     "quoted concatenations recorded as brace-enclosed"),
    # ---------------------------------------------------------------- C11
    ("c11-case-insensitive", "C11", IP,
     "                if field.value not in library.strings_dict:\n                    continue\n                field.value = library.strings_dict[field.value].value",
     "                lower = {k.lower(): v for k, v in library.strings_dict.items()}\n                if field.value.lower() not in lower:\n                    continue\n                field.value = lower[field.value.lower()].value",
     "case-insensitive lookup"),
    ("c11-no-metadata", "C11", IP,
     "            if resolved_fields:\n                entry.parser_metadata[self.metadata_key()] = resolved_fields",
     "            if len(resolved_fields) > 1:\n                entry.parser_metadata[self.metadata_key()] = resolved_fields",
     "metadata only recorded when two or more fields were resolved"),
    ("c11-remove-enclosing-first", "C11", PS,
     "        ResolveStringReferencesMiddleware(allow_inplace_modification=allow_inplace_modification),\n        RemoveEnclosingMiddleware(allow_inplace_modification=allow_inplace_modification),",
     "        RemoveEnclosingMiddleware(allow_inplace_modification=allow_inplace_modification),\n        ResolveStringReferencesMiddleware(allow_inplace_modification=allow_inplace_modification),",
     "enclosing removal before resolution: {key} and \"key\" get resolved"),
    # ---------------------------------------------------------------- C12
    ("c12-tilde-whitespace", "C12", N,
     '    whitespace = set(" \\r\\n\\t")  # Allowed whitespace characters.', '    whitespace = set(" ~\\r\\n\\t")  # Allowed whitespace characters.',
     "~ treated as whitespace by the splitter"),
    ("c12-and-without-trailing-ws", "C12", N,
     "        elif step == END_WHITESPACE:\n            if char in whitespace:\n                step = NEXT_WORD\n            else:\n                step = START_WHITESPACE",
     "        elif step == END_WHITESPACE:\n            if char in whitespace or char == \",\":\n                step = NEXT_WORD\n            else:\n                step = START_WHITESPACE",
     "'and,' accepted as separator"),
    ("c12-escape-keeps-state", "C12", N,
     "                spans[-1].append(possible_end)\n                spans.append([pos - 1])\n            step = START_WHITESPACE\n            try:",
     "                spans[-1].append(possible_end)\n                spans.append([pos - 1])\n                step = START_WHITESPACE\n            try:",
     "escape only resets the state machine after a separator (a\\'nd consumed again)"),
    # ---------------------------------------------------------------- C13
    ("c13-jr-first-swapped", "C13", N,
     "        if len(sections) == 3:\n            jr = sections[-2]",
     "        if len(sections) == 3:\n            jr = sections[-2] if len(sections[-2]) < 2 else sections[-1]", "Jr taken from the First section when Jr has 2+ words"),
    ("c13-trailing-comma-accepted", "C13", N,
     "        if (len(sections) > 1) and strict:\n            raise InvalidNameError(name=name, reason=\"Trailing comma at end of name\")",
     "        if (len(sections) > 2) and strict:\n            raise InvalidNameError(name=name, reason=\"Trailing comma at end of name\")",
     "'Last,' accepted"),
    ("c13-von-first-lower", "C13", N,
     "                split = rindex(lcases[:-1], 0, -1) + 1", "                split = (lcases[:-1].index(0) if 0 in lcases[:-1] else -1) + 1",
     "comma forms: von ends at the FIRST lower-case word"),
    ("c13-strict-swallowed", "C13", N,
     "        except InvalidNameError as e:\n            return MiddlewareErrorBlock(entry, e)",
     "        except InvalidNameError as e:\n            return MiddlewareErrorBlock(entry, e) if \"comma\" in str(e) else entry",
     "brace errors swallowed by the middleware: entry returned half-transformed"),
    # ---------------------------------------------------------------- C14
    ("c14-merge-order", "C14", N,
     "        return \", \".join(escape_last_slash(name) for name in [von_last, jr, first] if name)",
     "        return \", \".join(escape_last_slash(name) for name in ([von_last, first, jr] if jr and first and len(self.first) > 1 else [von_last, jr, first]) if name)",
     "merge emits Last, First, Jr for multi-word first names"),
    ("c14-drops-von", "C14", N,
     "        von_last = \" \".join(name for name in [von, last] if name)",
     "        von_last = \" \".join(name for name in [von if len(self.von) < 2 else self.von[-1], last] if name)",
     "multi-word von parts lose all but their last word"),
    # ---------------------------------------------------------------- C15
    ("c15-table-typo", "C15", MO, '        ("sep", "September"),', '        ("sep", "Septembre"),', "typo in one table row"),
    ("c15-ge-12", "C15", MO,
     "            if v < 1 or v > 12:\n                # Nothing we can do here", "            if v < 1 or v >= 12:\n                # Nothing we can do here",
     "abbreviation middleware rejects 12"),
    ("c15-quoted-int", "C15", MO,
     "        if isinstance(v, str) and _is_int_string(v):\n            if 1 <= int(v) <= 12:",
     "        if isinstance(v, str) and _is_int_string(v.strip('\"')):\n            v = v.strip('\"')\n            if 1 <= int(v) <= 12:",
     "Int middleware converts \"1\" in quotes"),
    # ---------------------------------------------------------------- C16
    ("c16-key-ignored-for-strings", "C16", SB,
     "                block_key = getattr(block, \"key\", \"\")", "                block_key = \"\" if isinstance(block, String) else getattr(block, \"key\", \"\")",
     "strings are not sorted by key (comments off)"),
    ("c16-unlisted-first", "C16", SB,
     "                    # If the block type is not in the order list, put it at the end\n                    return len(self._block_type_order), block_junk.sort_key",
     "                    # If the block type is not in the order list, put it at the end\n                    return -1, block_junk.sort_key",
     "unlisted types first (comments on)"),
    ("c16-comments-reversed", "C16", SB,
     "                blocks=[block for block_junk in block_junks for block in block_junk.blocks]",
     "                blocks=[block for block_junk in block_junks for block in (block_junk.blocks if len(block_junk.blocks) < 3 else block_junk.blocks[-2::-1] + block_junk.blocks[-1:])]",
     "comment runs of two or more are reversed"),
    # ---------------------------------------------------------------- C17
    ("c17-first-wins", "C17", FK,
     "            new_fields_dict[normalized_key] = field", "            new_fields_dict.setdefault(normalized_key, field)", "first-wins normalisation"),
    ("c17-custom-case-sensitive", "C17", SF,
     "                key = field.key.lower() if not self._case_sensitive else field.key", "                key = field.key", "custom sort is always case-sensitive on field keys"),
    ("c17-value-lowered", "C17", FK,
     "            field.key = normalized_key", "            field.key = normalized_key\n            if normalized_key in seen_normalized_keys and isinstance(field.value, str): field.value = field.value.lower()",
     "placeholder replaced below"),
    # ---------------------------------------------------------------- C18
    ("c18-encodes-keys", "C18", LX,
     "        errors = [e for e in errors if e != \"\"]\n        if len(errors) > 0:",
     "        if not isinstance(entry.key, tuple) and any(ord(c) > 127 for c in entry.key): entry.key = self._transform_python_value_string(entry.key)[0]\n        errors = [e for e in errors if e != \"\"]\n        if len(errors) > 0:",
     "non-ASCII entry keys are converted too"),
    ("c18-exception-propagates", "C18", LX,
     "        try:\n            return self._decoder.latex_to_text(python_string), \"\"\n        except Exception as e:",
     "        try:\n            return self._decoder.latex_to_text(python_string), \"\"\n        except ValueError as e:",
     "decoder errors other than ValueError propagate"),
    ("c18-url-spec-dropped", "C18", LX,
     "                    MacroTextSpec(\"url\", simplify_repl=\"%s\")", "                    MacroTextSpec(\"urlx\", simplify_repl=\"%s\")", "url decoder spec dropped: <...> around urls"),
    # ---------------------------------------------------------------- C19
    ("c19-set-field-appends-case", "C19", M,
     "        if field.key in self.fields_dict:\n            i = [f.key for f in self._fields].index(field.key)",
     "        if field.key in self.fields_dict and (field.key.islower() or len(self._fields) < 3):\n            i = [f.key for f in self._fields].index(field.key)",
     "set_field appends instead of replacing upper-case keys in entries with 3+ fields"),
    ("c19-field-eq-ignores-line", "C19", M,
     "            and isinstance(self, other.__class__)\n            and self.__dict__ == other.__dict__\n        )\n\n    def __str__(self):\n        return f\"Field (line",
     "            and isinstance(self, other.__class__)\n            and (self._key, self._value) == (other._key, other._value)\n        )\n\n    def __str__(self):\n        return f\"Field (line",
     "Field equality ignores start_line"),
    ("c19-pop-wrong-default", "C19", M,
     "        except KeyError:\n            return default\n", "        except KeyError:\n            return default if default is not None or len(self._fields) < 2 else False\n",
     "pop of an absent key returns False in entries with 2+ fields"),
    # ---------------------------------------------------------------- C20
    ("c20-prepend-after-default", "C20", E,
     "    return list(prepend_middleware) + list(unparse_stack)", "    return list(unparse_stack) + list(prepend_middleware)", "prepend placed after the default write stack"),
    ("c20-write_file-drops-format", "C20", E,
     "        prepend_middleware=append_middleware,\n        bibtex_format=bibtex_format,", "        prepend_middleware=append_middleware,\n        bibtex_format=bibtex_format if isinstance(file, str) else None,",
     "write_file ignores bibtex_format for file objects"),
    ("c20-parse_file-encoding", "C20", E,
     "    with open(path, encoding=encoding) as f:", "    with open(path, encoding=\"utf-8\" if encoding.lower() == \"latin-1\" else encoding, errors=\"replace\") as f:",
     "parse_file ignores latin-1"),
    ("c20-tuple-rejected", "C20", MW,
     "            elif isinstance(transformed, Collection):", "            elif isinstance(transformed, Collection) and not (isinstance(transformed, tuple) and len(transformed) > 1):",
     "tuple results of 2+ blocks rejected"),
    ("c20-empty-keeps-block", "C20", MW,
     "                blocks.extend(transformed)", "                blocks.extend(transformed if len(transformed) or not isinstance(transformed, list) else [b])",
     "[] treated like 'keep the block'"),
]

# ---------------------------------------------------------------- behaviour-preserving refactorings (controls: every check must stay silent)
# `old` = "*" means: `new` is a list of (regex, replacement) pairs applied to the whole file.
REFACTORINGS = [
    ("refactor-rename-field-value-attr", "ALL", M, "*", [(r"\b_value\b", "_val")], "private attribute Field/String/Preamble._value renamed to _val"),
    ("refactor-rename-next-mark", "ALL", S, "*", [(r"\b_next_mark\b", "_advance_to_mark"), (r"\b_unaccepted_mark\b", "_pending")], "internal scanner method and put-back slot renamed"),
    ("refactor-abort-messages", "ALL", S, "*", [(r"Unexpected block start", "New block started"), (r"Expected a `=` after entry key", "Missing `=` after the field key"),
                                                 (r"Unexpectedly reached end of file\.", "Input ended inside a block.")], "wording of abort reasons changed"),
    ("refactor-library-private-names", "ALL", L, "*", [(r"\b_entries_by_key\b", "_entry_index"), (r"\b_strings_by_key\b", "_string_index"), (r"\b_blocks\b", "_items")],
     "private containers of Library renamed"),
    ("refactor-internal-exception-relay", "ALL", S, "*",
     [(r"        comma_mark = self\._next_mark\(accept_eof=False\)\n",
       "        try:\n            comma_mark = self._next_mark(accept_eof=False)\n        except BlockAbortedException as first:\n"
       "            # relay: same reason and end, new exception object\n            raise BlockAbortedException(abort_reason=first.abort_reason, end_index=first.end_index)\n")],
     "an abort is caught and re-raised as a new exception object inside the splitter (two raise origins per failed block)"),
    ("refactor-transform-builds-library-stepwise", "ALL", MW, "*", [(r"        return Library\(blocks=blocks\)", "        result = Library()\n        result.add(blocks)\n        return result")],
     "BlockMiddleware.transform builds the result with Library() + add(list)"),
]

# fix up the two placeholders that need multi-line context
def _fix():
    out = []
    for m in MUTANTS:
        if m[0] == "c03-field-line-at-value":
            out.append(("c03-field-line-at-value", "C03", S,
                        "            result.append(Field(start_line=start_line, key=key, value=value))",
                        "            result.append(Field(start_line=self._current_line, key=key, value=value))",
                        "field line taken after the value was scanned (wrong for multi-line values)"))
        elif m[0] == "c17-value-lowered":
            out.append(("c17-value-lowered", "C17", FK,
                        "            seen_normalized_keys.add(normalized_key)\n            field.key = normalized_key",
                        "            if normalized_key in seen_normalized_keys and isinstance(field.value, str):\n                field.value = field.value.lower()\n            seen_normalized_keys.add(normalized_key)\n            field.key = normalized_key",
                        "value lower-cased along with a colliding key"))
        else:
            out.append(m)
    return out


MUTANTS = _fix()
CONTROLS = {"c01-no-progress", "c01-escape-scan-quadratic-safe", "c03-line-not-advanced-crlf", "c02-close-brace-in-quotes", "c02-hash-value-trim"} | {r[0] for r in REFACTORINGS}
