#!/usr/bin/env python3
"""Self-validation of the monitors: apply each deliberate mutant to a scratch copy of /repo
(outside /repo and /verif), run the quick check of its property with VERIF_REPO pointing at the
copy, expect a VIOLATION (controls: expect none), and delete the copy.

usage: selftest/run.py [--tests] [--tier quick|thorough] [--jobs N] [id-substring ...]
  --tests  also run the repository's own suite on the mutant and report whether it stays green
"""
import argparse
import json
import os
import shutil
import subprocess
import sys
import tempfile
import time
from concurrent.futures import ThreadPoolExecutor

HERE = os.path.dirname(os.path.abspath(__file__))
VERIF = os.path.dirname(HERE)
sys.path.insert(0, HERE)
from mutants import CONTROLS, MUTANTS, REFACTORINGS  # noqa: E402
import re

REPO = os.environ.get("SELFTEST_REPO", "/repo")


def make_copy():
    d = tempfile.mkdtemp(prefix="verif-selftest-")
    subprocess.run(["rsync", "-a", "--exclude", ".git", "--exclude", "__pycache__", "--exclude", "*.egg-info", REPO + "/", d + "/"], check=True)
    return d


def run_one(m, args):
    mid, prop, path, old, new, note = m
    d = make_copy()
    try:
        p = os.path.join(d, path)
        src = open(p).read()
        if old == "*":
            out = src
            for pat, rep in new:
                out, n = re.subn(pat, rep, out)
                if n == 0:
                    return dict(id=mid, prop=prop, status="PATCH-DOES-NOT-APPLY", count=0)
            open(p, "w").write(out)
        else:
            if src.count(old) != 1:
                return dict(id=mid, prop=prop, status="PATCH-DOES-NOT-APPLY", count=src.count(old))
            open(p, "w").write(src.replace(old, new))
        rc = subprocess.run([sys.executable, "-c", "import bibtexparser"], env=dict(os.environ, PYTHONPATH=d), capture_output=True)
        if rc.returncode != 0:
            return dict(id=mid, prop=prop, status="DOES-NOT-IMPORT", err=rc.stderr.decode()[-300:])
        tests = None
        if args.tests:
            t = subprocess.run(["/venv/bin/python", "-m", "pytest", "-q", "-x", "-p", "no:cacheprovider", "tests"], cwd=d,
                               env=dict(os.environ, PYTHONPATH=d), capture_output=True, text=True)
            tests = "green" if t.returncode == 0 else "RED: " + t.stdout.strip().splitlines()[-1][:80]
        t0 = time.time()
        env = dict(os.environ, VERIF_REPO=d, VERIF_WORKERS=str(args.workers))
        props = ["C%02d" % i for i in range(1, 21)] if prop == "ALL" else [prop]
        fired, sigs, rcs, stdout = False, [], [], ""
        for pr in props:
            r = subprocess.run([os.path.join(VERIF, "check"), pr, "--tier", args.tier, "--no-shrink"], env=env, capture_output=True, text=True, cwd=VERIF)
            rcs.append(r.returncode)
            if r.returncode != 0:
                stdout += r.stdout[-300:]
            # for a refactoring every non-zero exit (violation OR inconclusive) is unwanted
            fired = fired or (r.returncode == 1 and "VIOLATION property=" in r.stdout) or (prop == "ALL" and r.returncode != 0)
            sigs += [pr + " " + l.split("sig=")[1].split(" detail=")[0] for l in r.stdout.splitlines() if "sig=" in l][:3]
            sigs += [pr + " " + l[:80] for l in r.stdout.splitlines() if l.startswith("INCONCLUSIVE")][:2]
        r = type("R", (), dict(returncode=max(rcs), stdout=stdout))
        expect = mid not in CONTROLS
        ok = fired == expect
        return dict(id=mid, prop=prop, status="ok" if ok else ("MISSED" if expect else "FALSE-ALARM-ON-CONTROL"), fired=fired, rc=r.returncode,
                    secs=round(time.time() - t0, 1), tests=tests, sigs=sigs, note=note,
                    tail=None if ok else r.stdout[-400:])
    finally:
        shutil.rmtree(d, ignore_errors=True)


def main():
    ap = argparse.ArgumentParser()
    ap.add_argument("--tests", action="store_true")
    ap.add_argument("--tier", default="quick")
    ap.add_argument("--jobs", type=int, default=4)
    ap.add_argument("--workers", type=int, default=4)
    ap.add_argument("--out", default=os.path.join(HERE, "last_run.json"))
    ap.add_argument("ids", nargs="*")
    args = ap.parse_args()
    sel = [m for m in MUTANTS + REFACTORINGS if not args.ids or any(s in m[0] or s == m[1] for s in args.ids)]
    res = []
    with ThreadPoolExecutor(args.jobs) as ex:
        for r in ex.map(lambda m: run_one(m, args), sel):
            res.append(r)
            print(f"{r['status']:24s} {r['id']:36s} {r['prop']} fired={r.get('fired')} {r.get('secs', '')}s tests={r.get('tests')} {r.get('sigs', '')}", flush=True)
            if r["status"] not in ("ok",):
                print("    ", (r.get("tail") or r.get("err") or "")[-300:].replace("\n", "\n     "))
    bad = [r for r in res if r["status"] != "ok"]
    if args.out:
        json.dump(res, open(args.out, "w"), indent=1)
    print(f"{len(res) - len(bad)}/{len(res)} as expected")
    return 1 if bad else 0


if __name__ == "__main__":
    sys.exit(main())
