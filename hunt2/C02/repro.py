"""Reproducers for the C02 hunt. Run: PYTHONPATH=/tmp/wti-C02 /venv/bin/python _hunt/repro.py"""
import logging
import sys

logging.disable(logging.CRITICAL)

from bibtexparser.splitter import Splitter
from bibtexparser import model as M


def finding1():
    """trailing comma in @string ends up inside the value"""
    violated = False
    for doc, want in [
        ('@string{a = "x",}', '"x"'),
        ("@string{a = {x} , }", "{x}"),
        ('@string{a = b # "c",\n}', 'b # "c"'),
    ]:
        lib = Splitter(doc).split()
        ok = (
            len(lib.blocks) == 1
            and type(lib.blocks[0]) is M.String
            and lib.blocks[0].key == "a"
            and lib.blocks[0].value.strip() == want
        )
        if not ok:
            print("   ", repr(doc), "->", [repr(b) for b in lib.blocks])
            violated = True
    return violated


def finding2():
    """fields named ID / ENTRYTYPE are shadowed in Entry.__getitem__"""
    lib = Splitter("@article{k, ID = {x}, ENTRYTYPE = {y}}").split()
    if len(lib.blocks) != 1 or type(lib.blocks[0]) is not M.Entry:
        print("   unexpected blocks", lib.blocks)
        return True
    e = lib.blocks[0]
    got = [(f.key, e[f.key]) for f in e.fields]
    want = [("ID", "{x}"), ("ENTRYTYPE", "{y}")]
    if got != want:
        print("    entry[key] for the parsed field keys:", got, "fields:", e.fields)
        return True
    return False


def main():
    any_violated = False
    for n, f in enumerate([finding1, finding2], start=1):
        v = f()
        print("FINDING %d: %s" % (n, "VIOLATED" if v else "holds"))
        any_violated = any_violated or v
    sys.exit(1 if any_violated else 0)


if __name__ == "__main__":
    main()
