#!/usr/bin/env python
"""Reproducers for the C10 hunt. Run: PYTHONPATH=/tmp/wti-C10 /venv/bin/python repro.py"""
import logging
import sys

logging.disable(logging.CRITICAL)

from bibtexparser.library import Library
from bibtexparser.middlewares.enclosing import AddEnclosingMiddleware
from bibtexparser.middlewares.enclosing import RemoveEnclosingMiddleware
from bibtexparser.model import Entry
from bibtexparser.model import Field
from bibtexparser.model import String


def finding_1() -> bool:
    """Remove on a Python int value: must strip nothing, record 'no-enclosing', and
    add-with-reuse must give the int back. Returns True if violated."""
    violated = False
    for key in ("year", "title"):
        for inplace in (True, False):
            entry = Entry("article", "k", [Field("author", "{A}"), Field(key, 2020)])
            try:
                lib = RemoveEnclosingMiddleware(allow_inplace_modification=inplace).transform(
                    Library([entry])
                )
                e = lib.entries[0]
                ok = (
                    e.fields[1].value == 2020
                    and e.parser_metadata["removed_enclosing"][key] == "no-enclosing"
                    and e.fields[0].value == "A"
                )
                lib = AddEnclosingMiddleware(True, False, "{").transform(lib)
                ok = ok and lib.entries[0].fields[1].value == 2020
                ok = ok and lib.entries[0].fields[0].value == "{A}"
                violated |= not ok
            except Exception as ex:  # noqa
                print(f"   key={key} inplace={inplace}: {type(ex).__name__}: {ex}")
                violated = True
    try:
        lib = RemoveEnclosingMiddleware().transform(Library([String("s", 5)]))
        violated |= not (
            lib.strings[0].value == 5
            and lib.strings[0].parser_metadata["removed_enclosing"] == "no-enclosing"
        )
    except Exception as ex:  # noqa
        print(f"   String('s', 5): {type(ex).__name__}: {ex}")
        violated = True
    return violated


def main() -> int:
    any_violated = False
    for n, fn in enumerate([finding_1], start=1):
        v = fn()
        any_violated |= v
        print(f"FINDING {n}: {'VIOLATED' if v else 'holds'}")
    return 1 if any_violated else 0


if __name__ == "__main__":
    sys.exit(main())
