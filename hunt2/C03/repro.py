#!/usr/bin/env python
"""Reproducers for the C03 hunt. Run with PYTHONPATH=/tmp/wti-C03 /venv/bin/python repro.py"""
import logging
import sys

logging.disable(logging.CRITICAL)
from bibtexparser.splitter import Splitter
from bibtexparser.model import Entry, ParsingFailedBlock


def violations(s, blocks):
    """Independent oracle for C03: tiling + 0-based start lines (+ field '=' lines for plain entries)."""
    out = []
    pos = 0
    for i, b in enumerate(blocks):
        raw = b.raw
        p = pos
        while p < len(s) and s[p].isspace():
            p += 1
        if not raw or not s.startswith(raw, p):
            out.append(f"block {i}: raw {raw!r} does not start at the next non-blank char {s[p:p+20]!r}")
            q = s.find(raw or "\0", pos)
            if q < 0:
                continue
            p = q
        if b.start_line != s.count("\n", 0, p):
            out.append(f"block {i}: start_line {b.start_line} != {s.count(chr(10), 0, p)}")
        e = b
        while isinstance(e, ParsingFailedBlock) and e.ignore_error_block is not None:
            e = e.ignore_error_block
        if isinstance(e, Entry):
            q = 0
            for f in e.fields:
                # simple documents only: locate 'key<blanks>=' after the previous field
                import re
                m = re.compile(re.escape(f.key) + r"\s*=").search(raw, q)
                if m:
                    line = s.count("\n", 0, p + m.end() - 1)
                    if f.start_line != line:
                        out.append(f"block {i} field {f.key!r}: start_line {f.start_line} != {line}")
                    q = m.end()
        pos = p + len(raw)
    if s[pos:].strip():
        out.append(f"text after last block not covered: {s[pos:pos+20]!r}")
    return out


def finding_1():
    s = "head\n@a{k,\n a = 1}\ntail"
    sp = Splitter(s)
    first = violations(s, sp.split().blocks)
    assert first == [], first  # the first call is fine
    second = violations(s, sp.split().blocks)  # same object, same text, second call
    return second


FINDINGS = [finding_1]

if __name__ == "__main__":
    bad = False
    for n, f in enumerate(FINDINGS, 1):
        v = f()
        if v:
            bad = True
            print(f"FINDING {n}: VIOLATED")
            print("   details: " + "; ".join(v), file=sys.stderr)
        else:
            print(f"FINDING {n}: holds")
    sys.exit(1 if bad else 0)
