#!/usr/bin/env python
"""Reproducers for the C05 hunt (parse -> write -> parse round trip).

Run:  PYTHONPATH=/tmp/wti-C05 /venv/bin/python /tmp/wti-C05/_hunt/repro.py
"""
import logging
import re
import sys
import warnings

import bibtexparser
from bibtexparser import model as M
from bibtexparser.writer import BibtexFormat

logging.disable(logging.CRITICAL)
warnings.simplefilter("ignore")


def desc(lib):
    out = []
    for b in lib.blocks:
        if isinstance(b, M.ParsingFailedBlock):
            out.append(("FAILED", type(b).__name__, b.raw))
        elif isinstance(b, M.Entry):
            out.append(("entry", b.entry_type, b.key, tuple((f.key, f.value) for f in b.fields)))
        elif isinstance(b, M.String):
            out.append(("string", b.key, b.value))
        elif isinstance(b, M.Preamble):
            out.append(("preamble", b.value))
        elif isinstance(b, M.ExplicitComment):
            out.append(("explicit_comment", b.comment))
        elif isinstance(b, M.ImplicitComment):
            out.append(("implicit_comment", b.comment))
        else:
            out.append(("unknown", repr(b)))
    return out


def roundtrip_violated(doc, fmt=None, verbose=True):
    """Literal oracle of C05: blocks of parse(doc) == blocks of parse(write(parse(doc))),
    and write(parse(write(parse(doc)))) == write(parse(doc))."""
    lib1 = bibtexparser.parse_string(doc)
    d1 = desc(lib1)
    assert not any(x[0] == "FAILED" for x in d1), "input itself must parse without failed blocks"
    out1 = bibtexparser.write_string(lib1, bibtex_format=fmt)
    lib2 = bibtexparser.parse_string(out1)
    d2 = desc(lib2)
    out2 = bibtexparser.write_string(lib2, bibtex_format=fmt)
    bad = d1 != d2 or out1 != out2
    if bad and verbose:
        print("   input :", repr(doc))
        print("   lib1  :", d1)
        print("   out1  :", repr(out1))
        print("   lib2  :", d2)
        if out1 != out2:
            print("   out2  :", repr(out2))
    return bad


# ---------------------------------------------------------------------------
# Independent mini reference reader with BibTeX semantics (used by finding 2 only):
# evaluates what each field DENOTES: macros (@string, case-insensitive) are expanded,
# '#' concatenates, "..." and {...} are literals, numbers are literals,
# an undefined macro denotes the empty string (as BibTeX does, with a warning).
# Only handles the simple documents used below (no '@' or backslashes in values).
# ---------------------------------------------------------------------------
def _read_value(s, i, macros, stop):
    parts = []
    while True:
        while s[i].isspace():
            i += 1
        if s[i] == "{":
            depth, j = 1, i + 1
            while depth:
                depth += {"{": 1, "}": -1}.get(s[j], 0)
                j += 1
            parts.append(s[i + 1 : j - 1])
            i = j
        elif s[i] == '"':
            depth, j = 0, i + 1
            while not (s[j] == '"' and depth == 0):
                depth += {"{": 1, "}": -1}.get(s[j], 0)
                j += 1
            parts.append(s[i + 1 : j])
            i = j + 1
        else:
            j = i
            while not s[j].isspace() and s[j] not in '#,}"{':
                j += 1
            tok = s[i:j]
            parts.append(tok if tok.isdigit() else macros.get(tok.lower(), ""))
            i = j
        while s[i].isspace():
            i += 1
        if s[i] == "#":
            i += 1
            continue
        assert s[i] in stop, (s, i)
        return "".join(parts), i


def denotation(doc):
    """[(entry key, [(field, denoted string), ...]), ...] under BibTeX semantics."""
    macros, result, i = {}, [], 0
    for m in re.finditer(r"@(\w+)\s*\{", doc):
        if m.start() < i:
            continue
        kind, i = m.group(1).lower(), m.end()
        if kind == "string":
            j = doc.index("=", i)
            name = doc[i:j].strip().lower()
            val, i = _read_value(doc, j + 1, macros, "}")
            macros[name] = val
        elif kind in ("comment", "preamble"):
            continue
        else:
            j = i
            while doc[j] not in ",}":
                j += 1
            key, fields, i = doc[i:j].strip(), [], j
            while doc[i] == ",":
                j = i + 1
                while doc[j].isspace():
                    j += 1
                if doc[j] == "}":
                    i = j
                    break
                k = doc.index("=", j)
                val, i = _read_value(doc, k + 1, macros, ",}")
                fields.append((doc[j:k].strip(), val))
            result.append((key, fields))
    return result


def finding_1():
    # Residual of the earlier "trailing blank after a backslash is stripped" mechanism:
    # commit 928e1db repaired only _handle_explicit_comment; entry keys still lose the blank.
    docs = [
        "@article{a\\ ,\n  title = {T}\n}\n",  # key 'a\' followed by a blank, then the comma
        "@article{a\\\n}\n",  # entry without fields
    ]
    return any([roundtrip_violated(d) for d in docs])


def finding_2():
    # Reading-dependent: what the written file denotes (BibTeX semantics) differs from what
    # the input denotes, although the library-level comparison demanded by the statement holds.
    doc = (
        '@string{pub = "ACM"}\n'
        '@article{k,\n'
        '  publisher = pub # " Press",\n'
        '  title = "A" # "B",\n'
        "  month = jan\n"
        "}\n"
    )
    lib1 = bibtexparser.parse_string(doc)
    out1 = bibtexparser.write_string(lib1)
    literal_violated = roundtrip_violated(doc, verbose=False)
    den_in, den_out = denotation(doc), denotation(out1)
    # give the month macro the meaning the standard styles give it
    semantic_violated = den_in != den_out
    if semantic_violated:
        print("   input :", repr(doc))
        print("   out1  :", repr(out1))
        print("   input denotes :", den_in)
        print("   output denotes:", den_out)
        print("   literal library-level comparison violated:", literal_violated)
    return semantic_violated


_FILE_ROUNDTRIP = r"""
import os, sys, tempfile, logging
import bibtexparser
logging.disable(logging.CRITICAL)
doc = "@article{k,\n  author = {\u010capek, Karel},\n  title = {G\u00f6del}\n}\n"
d = tempfile.mkdtemp()
p1, p2 = os.path.join(d, "in.bib"), os.path.join(d, "out.bib")
with open(p1, "w", encoding="utf-8") as f:
    f.write(doc)
lib1 = bibtexparser.parse_file(p1)
try:
    bibtexparser.write_file(p2, lib1)
    lib2 = bibtexparser.parse_file(p2)
    v1 = [(f.key, f.value) for e in lib1.entries for f in e.fields]
    v2 = [(f.key, f.value) for e in lib2.entries for f in e.fields]
    print("SAME" if v1 == v2 and len(lib1.blocks) == len(lib2.blocks) else "DIFFERENT %r %r" % (v1, v2))
except Exception as e:
    print("EXCEPTION %s: %s" % (type(e).__name__, e))
"""


def finding_3():
    # Environment-dependent: file entry points, process locale whose encoding is not UTF-8.
    import os
    import subprocess

    env = dict(os.environ)
    env.update({"LC_ALL": "C", "LANG": "C", "PYTHONUTF8": "0", "PYTHONCOERCECLOCALE": "0"})
    env["PYTHONPATH"] = os.pathsep.join(p for p in sys.path if p)
    res = subprocess.run(
        [sys.executable, "-c", _FILE_ROUNDTRIP], env=env, capture_output=True, text=True
    )
    out = (res.stdout + res.stderr).strip()
    violated = not out.startswith("SAME")
    if violated:
        print("   parse_file -> write_file -> parse_file with LC_ALL=C PYTHONUTF8=0 PYTHONCOERCECLOCALE=0:")
        print("   ", out)
    return violated


def main():
    any_violated = False
    for n, f in enumerate([finding_1, finding_2, finding_3], start=1):
        violated = f()
        any_violated |= violated
        print(f"FINDING {n}: {'VIOLATED' if violated else 'holds'}")
    return 1 if any_violated else 0


if __name__ == "__main__":
    sys.exit(main())
