#!/usr/bin/env python
"""C16 hunt (round 2): no new mechanism found - there are no reproducers.
Run as: PYTHONPATH=/tmp/wti-C16 /venv/bin/python /tmp/wti-C16/_hunt/repro.py
The enumerators used during the hunt are enum1.py (bounded-exhaustive + random,
constructed libraries) and enum2.py (parse-based, large libraries)."""
import sys

FINDINGS = []  # (number, callable returning True if violated)

def main():
    violated = False
    for n, fn in FINDINGS:
        v = bool(fn())
        print(f"FINDING {n}: {'VIOLATED' if v else 'holds'}")
        violated |= v
    if not FINDINGS:
        print("no findings")
    return 1 if violated else 0

if __name__ == "__main__":
    sys.exit(main())
