#!/usr/bin/env python
"""Reproducers for the C18 hunt. Run as:
   PYTHONPATH=/tmp/wti-C18 /venv/bin/python /tmp/wti-C18/_hunt/repro.py
Prints one line per finding; exit code 1 if any finding is violated."""
import logging
import sys

logging.disable(logging.CRITICAL)

from bibtexparser.library import Library
from bibtexparser.model import Entry, Field, String
from bibtexparser.middlewares.names import NameParts
from bibtexparser.middlewares.latex_encoding import (
    LatexDecodingMiddleware,
    LatexEncodingMiddleware,
)


def roundtrip_library(text, enc, dec):
    """encode then decode a library holding `text` as field value, @string value and name part."""
    lib = Library(
        [
            String("s", text),
            Entry(
                "article",
                "k",
                [Field("title", text), Field("author", NameParts(first=[text], last=["Doe"]))],
            ),
        ]
    )
    out = dec.transform(enc.transform(lib))
    res = []
    for b in out.blocks:
        if isinstance(b, String):
            res.append(b.value)
        elif isinstance(b, Entry):
            res.append(b.fields_dict["title"].value)
            res.append(b.fields_dict["author"].value.first[0])
        else:  # an error block
            res.append(("ERROR-BLOCK", type(b).__name__))
    return res


def finding1():
    # two well-formed math spans, the first one ends in the math line break "\\"; only plain words between
    violated = False
    for text in [r"$a\\$ and $b$", r"$\\$ $x$", r"$a\\$ R&D $b$"]:
        for enc in (
            LatexEncodingMiddleware(),
            LatexEncodingMiddleware(keep_math=True, enclose_urls=False),
        ):
            got = roundtrip_library(text, enc, LatexDecodingMiddleware())
            if any(g != text for g in got):
                violated = True
                print("   ", repr(text), "->", repr(got[0]))
    return violated


def finding2():
    # name parts as the library's own SplitNameParts produces them (a list of NameParts per field)
    import bibtexparser
    from bibtexparser.middlewares import SeparateCoAuthors, SplitNameParts

    src = r"""@article{k, author = {M{\"u}ller, Jos{\'e} and Doe, J.}, title = {Caf{\'e}}}"""
    lib = bibtexparser.parse_string(
        src,
        append_middleware=[SeparateCoAuthors(), SplitNameParts(), LatexDecodingMiddleware()],
    )
    e = lib.entries[0]
    title_decoded = e["title"] == "Café"
    np = e["author"][0]
    names_decoded = np.last == ["Müller"] and np.first == ["José"]
    # the same for encoding
    lib2 = Library(
        [Entry("article", "k", [Field("author", [NameParts(first=["José"], last=["Müller"])])])]
    )
    out = LatexEncodingMiddleware().transform(lib2)
    np2 = out.entries[0]["author"][0]
    names_encoded = np2.first != ["José"]
    if title_decoded and not (names_decoded and names_encoded):
        print("    name parts after decoding:", np, "| after encoding:", np2)
        return True
    return False


def finding3():
    violated = False
    for text in ["Ångström", "Café", "K"]:
        got = roundtrip_library(text, LatexEncodingMiddleware(), LatexDecodingMiddleware())
        if any(g != text for g in got):
            violated = True
            print("   ", ascii(text), "->", ascii(got[0]))
    return violated


def main():
    any_violated = False
    for n, fn in enumerate([finding1, finding2, finding3], start=1):
        try:
            v = fn()
        except Exception as ex:  # an escaping exception is a violation as well
            print("    exception:", repr(ex))
            v = True
        print("FINDING %d: %s" % (n, "VIOLATED" if v else "holds"))
        any_violated = any_violated or v
    return 1 if any_violated else 0


if __name__ == "__main__":
    sys.exit(main())
