"""No findings for C12: nothing to reproduce. Exit code 0."""
import sys
FINDINGS = []
bad = 0
for n, f in enumerate(FINDINGS, 1):
    v = f()
    print("FINDING %d: %s" % (n, "VIOLATED" if v else "holds"))
    bad |= bool(v)
if not FINDINGS:
    print("no findings")
sys.exit(1 if bad else 0)
