"""Reproducers for the C04 hunt.  Run:  PYTHONPATH=/tmp/wti-C04 /venv/bin/python repro.py"""
import logging
import sys
import warnings

logging.disable(logging.CRITICAL)
warnings.simplefilter("ignore")

import bibtexparser


def fields(entry):
    return [(f.key, f.value) for f in entry.fields]


def finding_1():
    """Incremental concatenation: parse_string(D2, library=parse_string(D1)).

    The blocks already parsed for D1 must be unchanged (and equal to what parsing
    the concatenated text D1 + D2 gives).  Returns True when violated."""
    d1 = (
        '@string{who = "World"}\n'
        "@book{a, author = {{World Health Organization}}, title = {who}}\n"
    )
    d2 = "@misc{b, t = {y}}\n"
    lib = bibtexparser.parse_string(d1)
    before = fields(lib.entries[0])
    lib = bibtexparser.parse_string(d2, library=lib)
    after = fields(lib.entries[0])
    concatenated = fields(bibtexparser.parse_string(d1 + d2).entries[0])
    # before == concatenated == [('author', '{World Health Organization}'), ('title', 'who')]
    # after  == [('author', 'World Health Organization'), ('title', 'World')]
    return not (before == after == concatenated)


def main():
    violated = False
    for n, f in enumerate([finding_1], start=1):
        try:
            v = f()
        except Exception as e:  # an exception while parsing is a violation, too
            print(f"  (exception: {e!r})")
            v = True
        print(f"FINDING {n}: {'VIOLATED' if v else 'holds'}")
        violated = violated or v
    sys.exit(1 if violated else 0)


if __name__ == "__main__":
    main()
