#!/usr/bin/env python
"""C19 hunt: no violation inside the quantifier was found, so there is no reproducer to run.
(The exploration scripts are model_ops.py and eq_test.py in this directory.)"""
import sys
import bibtexparser  # noqa: F401  (makes sure the library under test is importable)

FINDINGS = []  # (number, callable returning True when violated)

violated = False
for n, check in FINDINGS:
    v = bool(check())
    violated |= v
    print(f"FINDING {n}: {'VIOLATED' if v else 'holds'}")
if not FINDINGS:
    print("no findings")
sys.exit(1 if violated else 0)
