#!/usr/bin/env python
"""Reproducers for the C11 hunt. Run: PYTHONPATH=/tmp/wti-C11 /venv/bin/python _hunt/repro.py"""
import logging
import sys

import bibtexparser

logging.disable(logging.CRITICAL)
KEY = "ResolveStringReferences"


def finding1():
    """Python str.strip() in the splitter removes non-BibTeX white space (U+00A0, U+2007, U+3000,
    U+0085, 0x1c-0x1f) from bare values and @string keys: two different identifiers collapse."""
    violated = False
    for ch in ("\u00a0", "\u2007", "\u3000", "\x1f"):
        ident = "key" + ch  # a bare identifier different from 'key'; no @string defines it
        lib = bibtexparser.parse_string('@string{key = "A"}\n@misc{e, f = %s, g = {%s}}\n' % (ident, ident))
        e = lib.entries[0]
        # statement: names no defined string -> keeps its own content, nothing recorded
        if e["f"] == "A" or "f" in e.parser_metadata.get(KEY, []):
            violated = True
        # both identifiers defined: the second definition is lost as a 'duplicate' of the first
        lib = bibtexparser.parse_string('@string{key = "A"}\n@string{%s = "B"}\n@misc{e, f = %s}\n' % (ident, ident))
        if len(lib.strings) != 2 or lib.entries[0]["f"] != "B":
            violated = True
    return violated


def finding2():
    """A referenced @string whose content is a concatenation of quoted/braced pieces: the field (and the
    String block) end up holding a text that is neither the source text nor the concatenated content."""
    violated = False
    for raw, joined in (('"Journal of " # "Testing"', "Journal of Testing"), ("{a} # {b}", "ab")):
        lib = bibtexparser.parse_string("@string{j = %s}\n@misc{e, journal = j}\n" % raw)
        got = lib.entries[0]["journal"]
        sval = lib.strings_dict["j"].value
        if got not in (raw, joined) or sval not in (raw, joined):
            violated = True
    return violated


def main():
    any_violated = False
    for n, f in enumerate((finding1, finding2), start=1):
        v = f()
        any_violated |= v
        print("FINDING %d: %s" % (n, "VIOLATED" if v else "holds"))
    return 1 if any_violated else 0


if __name__ == "__main__":
    sys.exit(main())
