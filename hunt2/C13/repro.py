#!/usr/bin/env python
"""Reproducers for the C13 hunt. Run with PYTHONPATH=/tmp/wti-C13 /venv/bin/python repro.py"""
import sys
from bibtexparser.middlewares.names import parse_single_name_into_parts

violated = False

def report(n, bad):
    global violated
    print("FINDING %d: %s" % (n, "VIOLATED" if bad else "holds"))
    violated = violated or bad

# FINDING 1: a word whose first letter is a titlecase letter (capital digraph) becomes a von part
bad = False
try:
    p = parse_single_name_into_parts("Mirko ǅemal Bijedić")
    if p.von or p.first != ["Mirko", "ǅemal"] or p.last != ["Bijedić"]:
        bad = True
    p = parse_single_name_into_parts("ǅemal Bijedić, Mirko")
    if p.von or p.last != ["ǅemal", "Bijedić"] or p.first != ["Mirko"]:
        bad = True
except Exception as e:  # an exception would be a violation as well
    print("  exception:", repr(e))
    bad = True
report(1, bad)

sys.exit(1 if violated else 0)
