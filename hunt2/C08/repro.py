"""Reproducers for the C08 hunt. Run: PYTHONPATH=/tmp/wti-C08 /venv/bin/python repro.py"""
import sys

from bibtexparser.library import Library
from bibtexparser.model import Entry, ExplicitComment, Field


def entry(key, title):
    return Entry("article", key, [Field("title", title)])


def finding_1():
    """A failing replace() called with a block that is equal to, but not the same object as,
    the held one puts the *argument* back instead of the block it took out."""
    violated = False

    # (a) identity: the raising call swaps the held object
    ea, ea_copy, eb, eb2 = entry("a", "1"), entry("a", "1"), entry("b", "1"), entry("b", "2")
    lib = Library([ea, eb])
    before_blocks = list(lib.blocks)
    before_dict = dict(lib.entries_dict)
    try:
        lib.replace(ea_copy, eb2, fail_on_duplicate_key=True)
        raised = False
    except ValueError:
        raised = True
    assert raised
    same_objects = (
        len(lib.blocks) == len(before_blocks)
        and all(x is y for x, y in zip(lib.blocks, before_blocks))
        and all(lib.entries_dict[k] is before_dict[k] for k in before_dict)
    )
    if not same_objects:
        violated = True
        print("  (a) after the ValueError: blocks[0] is ea ->", lib.blocks[0] is ea,
              "; blocks[0] is the argument ->", lib.blocks[0] is ea_copy,
              "; entries_dict['a'] is ea ->", lib.entries_dict["a"] is ea)

    # (b) same mechanism, visible with == only: order of the blocks differs afterwards
    c_held, c_arg = ExplicitComment("c"), ExplicitComment("c")
    e1, e1_dup = entry("a", "1"), entry("a", "2")
    lib = Library()
    lib.add(c_held)
    lib.add(e1)
    try:
        lib.replace(c_arg, e1_dup, fail_on_duplicate_key=True)  # duplicate key 'a' -> ValueError
    except ValueError:
        pass
    # the library is supposed to be what it was: [c_held, e1]; c_arg was never added
    lib.add(c_arg)     # expected [c_held, e1, c_arg]
    lib.remove(c_arg)  # expected [c_held, e1]
    kinds = [type(b).__name__ for b in lib.blocks]
    ids = [id(b) for b in lib.blocks]
    if kinds != ["ExplicitComment", "Entry"]:
        violated = True
        print("  (b) expected [ExplicitComment, Entry] (insertion order), got", kinds)
    # and just before the remove the same object was listed twice:
    lib2 = Library()
    lib2.add(c_held)
    lib2.add(e1)
    try:
        lib2.replace(c_arg, e1_dup, fail_on_duplicate_key=True)
    except ValueError:
        pass
    lib2.add(c_arg)
    if len({id(b) for b in lib2.blocks}) != len(lib2.blocks):
        violated = True
        print("  (b') blocks lists one object twice although every object was added once:",
              [("c_arg" if b is c_arg else "c_held" if b is c_held else "e1") for b in lib2.blocks])
    return violated


def main():
    findings = [finding_1]
    any_violated = False
    for n, f in enumerate(findings, 1):
        v = f()
        any_violated |= v
        print(f"FINDING {n}: {'VIOLATED' if v else 'holds'}")
    sys.exit(1 if any_violated else 0)


if __name__ == "__main__":
    main()
