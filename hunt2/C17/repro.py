#!/usr/bin/env python
"""Reproducers for the C17 hunt.  Run: PYTHONPATH=/tmp/wti-C17 /venv/bin/python _hunt/repro.py"""
import logging
import sys

logging.disable(logging.CRITICAL)

import bibtexparser
from bibtexparser.library import Library
from bibtexparser.middlewares import AddEnclosingMiddleware
from bibtexparser.middlewares import NormalizeFieldKeys
from bibtexparser.middlewares import SortFieldsCustomMiddleware
from bibtexparser.model import Entry
from bibtexparser.model import Field


def _written_values(src, normalise):
    """parse (default stack [+ NormalizeFieldKeys]) -> write re-using the source enclosing
    -> list of (lower-cased key, value as written in the file)."""
    lib = bibtexparser.parse_string(
        src, append_middleware=[NormalizeFieldKeys()] if normalise else None
    )
    out = bibtexparser.write_string(
        lib,
        unparse_stack=[
            AddEnclosingMiddleware(
                reuse_previous_enclosing=True, enclose_integers=False, default_enclosing="{"
            )
        ],
    )
    res = []
    for line in out.splitlines():
        if line.startswith("\t"):
            k, v = line.strip().split(" = ", 1)
            res.append((k.lower(), v.rstrip(",")))
    return res, out


def finding_1():
    """NormalizeFieldKeys renames field keys but leaves entry.parser_metadata['removed_enclosing']
    (a dict keyed by the OLD field keys) untouched -> the value that is written is not the
    value of the (last occurrence of the) field any more."""
    violated = False
    # (a) no collision at all: macro reference becomes a braced literal
    # (b) collision: last occurrence is braced text with a comma, first one is a bare number:
    #     the braces are dropped -> invalid BibTeX, value truncated when read back
    # (c) collision: last occurrence is a concatenation expression -> frozen into a literal
    for src, key in [
        ("@a{k, Month = jan}", "month"),
        ("@a{k, title = 12, Title = {Foo, Bar}}", "title"),
        ('@a{k, month = {x}, Month = jan # "~1"}', "month"),
    ]:
        plain, _ = _written_values(src, normalise=False)
        normd, out = _written_values(src, normalise=True)
        expected = [v for k, v in plain if k == key][-1]  # value of the last occurrence
        got = [v for k, v in normd if k == key]
        if got != [expected]:
            violated = True
            print(f"  finding 1: {src!r}: written value {got!r}, expected [{expected!r}]")
    return violated


def finding_2():
    """case_sensitive=True keeps the caller's list object as the order (case_sensitive=False
    copies it): later changes of that list change the sorting, bypass the duplicate check
    and make a second run of the same middleware give another result."""
    order = ["b", "a"]
    mw = SortFieldsCustomMiddleware(order, case_sensitive=True)
    e = Entry("article", "k", [Field("a", "1"), Field("b", "2")])
    first = [f.key for f in mw.transform(Library([e])).entries[0].fields]
    order.reverse()  # the caller re-uses its list for something else
    second = [f.key for f in mw.transform(Library([e])).entries[0].fields]
    if first != second:
        print(f"  finding 2: same middleware, same entry: {first} then {second}")
    return first != second


def main():
    any_violated = False
    for n, fn in enumerate([finding_1, finding_2], start=1):
        v = fn()
        any_violated |= v
        print(f"FINDING {n}: {'VIOLATED' if v else 'holds'}")
    return 1 if any_violated else 0


if __name__ == "__main__":
    sys.exit(main())
