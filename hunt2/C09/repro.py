"""Reproducers for the C09 hunt. Run: PYTHONPATH=/tmp/wti-C09 /venv/bin/python repro.py"""
import logging
import sys

logging.disable(logging.CRITICAL)

import bibtexparser
from bibtexparser import middlewares as mw
from bibtexparser.model import DuplicateBlockKeyBlock
from bibtexparser.model import DuplicateFieldKeyBlock
from bibtexparser.model import Entry


def finding_1():
    """Keys are compared case-sensitively (BibTeX: entry keys, macro names and field names are
    case-insensitive; the library's own NormalizeFieldKeys / SortFieldsCustomMiddleware agree)."""
    violated = False
    lib = bibtexparser.parse_string("@article{Key, title={x}}\n@article{key, title={y}}\n")
    if not isinstance(lib.blocks[1], DuplicateBlockKeyBlock):
        violated = True  # both live: BibTeX reports "Repeated entry"
    lib = bibtexparser.parse_string('@string{Foo = "x"}\n@string{foo = "y"}\n')
    if not isinstance(lib.blocks[1], DuplicateBlockKeyBlock):
        violated = True
    lib = bibtexparser.parse_string("@article{k, Title={x}, title={y}}\n")
    if not isinstance(lib.blocks[0], DuplicateFieldKeyBlock):
        violated = True  # live entry with the field `title` given twice
    return violated


def finding_2():
    """An entry key containing `=`, `"` or `{` (all accepted by BibTeX's key scanner) aborts the block."""
    violated = False
    for key in ["a=b", 'a"b', "a{b}"]:
        doc = "@article{%s, title={x}}\n@article{%s, title={y}}\n" % (key, key)
        lib = bibtexparser.parse_string(doc)
        ok = (
            len(lib.blocks) == 2
            and isinstance(lib.blocks[0], Entry)
            and lib.blocks[0].key == key
            and isinstance(lib.blocks[1], DuplicateBlockKeyBlock)
            and lib.blocks[1].key == key
            and lib.blocks[1].previous_block is lib.blocks[0]
        )
        if not ok:
            violated = True  # 4 blocks (failed + implicit comment, twice), nothing flagged as duplicate
    return violated


def finding_3():
    """NormalizeFieldKeys merges field keys which differ in case only: occurrences are dropped,
    the entry stays live and is not flagged."""
    doc = "@article{k, Title={x}, title={y}, TITLE={z}}\n"
    lib = bibtexparser.parse_string(doc, append_middleware=[mw.NormalizeFieldKeys()])
    b = lib.blocks[0]
    if isinstance(b, DuplicateFieldKeyBlock):
        return len(b.ignore_error_block.fields) != 3
    return len(b.fields) != 3  # live Entry with 1 field: two occurrences dropped


def main():
    any_violated = False
    for n, f in enumerate([finding_1, finding_2, finding_3], start=1):
        try:
            v = f()
        except Exception as e:  # an exception on a well-formed document is a violation as well
            print(f"  (exception: {e!r})")
            v = True
        print(f"FINDING {n}: {'VIOLATED' if v else 'holds'}")
        any_violated = any_violated or v
    sys.exit(1 if any_violated else 0)


if __name__ == "__main__":
    main()
