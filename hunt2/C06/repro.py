"""Reproducers for the C06 hunt. Run: PYTHONPATH=/tmp/wti-C06 /venv/bin/python repro.py"""
import logging
import sys

logging.disable(logging.CRITICAL)

from bibtexparser import BibtexFormat, Library, writer
from bibtexparser.model import Entry, Field, ImplicitComment, ParsingFailedBlock


def finding_1() -> bool:
    """'auto' column ignores the entry written through the raw-less failed-block fallback."""
    lib = Library(
        [
            Entry("article", "k", [Field("a", "{1}")]),
            # same key -> Library.add turns it into DuplicateBlockKeyBlock(raw=None)
            Entry("article", "k", [Field("abcdefghij", "{2}"), Field("b", "{3}")]),
        ]
    )
    fmt = BibtexFormat()
    fmt.value_column = "auto"
    fmt.indent = "  "
    out = writer.write(lib, fmt)
    # every field line of every written entry: '<indent><key><pad> = <value>'
    cols = set()
    for line in out.splitlines():
        if " = " in line and line.startswith(fmt.indent):
            cols.add(line.index(" = ") + 3)
    return len(cols) != 1  # violated if the values do not all start in one column


def finding_2() -> bool:
    """fallback for raw-less failed blocks strips *all* trailing newlines of the wrapped block's text."""
    wrapped = ImplicitComment("last line\n\n")
    direct = writer.write(Library([wrapped]))  # 'last line\n\n\n'
    lib = Library([ParsingFailedBlock(error=Exception("x"), ignore_error_block=wrapped)])
    fmt = BibtexFormat()
    fmt.parsing_failed_comment = "% failed"
    out = writer.write(lib, fmt)
    # the block's own text (without the '\n' terminator the writer adds) must be carried
    return wrapped.comment not in out and direct[:-1] not in out


def main() -> int:
    violated = False
    for n, f in enumerate([finding_1, finding_2], start=1):
        try:
            v = f()
        except Exception as e:  # an exception is a violation as well
            print(f"FINDING {n}: VIOLATED (raised {e!r})")
            violated = True
            continue
        print(f"FINDING {n}: {'VIOLATED' if v else 'holds'}")
        violated = violated or v
    return 1 if violated else 0


if __name__ == "__main__":
    sys.exit(main())
