"""Reproducers for the C07 hunt. Run: PYTHONPATH=/tmp/wti-C07 /venv/bin/python _hunt/repro.py"""
import copy
import gc
import logging
import sys
import types

import bibtexparser
from bibtexparser import middlewares as mw

logging.disable(logging.CRITICAL)


def finding_1():
    """Copy-mode name middleware: the result reaches the INPUT library (and input entry) through
    MiddlewareErrorBlock.error.__traceback__ (frames of transform_entry / transform)."""
    doc = "@article{k, author = {A, B, C, D}, title = {t}}\n@article{j, author = {X}}"
    lib = bibtexparser.parse_string(doc, append_middleware=[mw.SeparateCoAuthors()])
    out = mw.SplitNameParts(allow_inplace_modification=False).transform(lib)
    err = out.blocks[0].error
    tb = err.__traceback__
    if tb is None:
        return False
    # direct chain
    direct = tb.tb_frame.f_locals.get("args", (None,))[0] is lib
    # generic reachability: any input block reachable from the output by following references
    targets = {id(lib), id(lib.blocks)} | {id(b) for b in lib.blocks}
    skip = (type, types.ModuleType, types.FunctionType, types.BuiltinFunctionType, types.CodeType)
    seen, stack, hit = set(), [out], False
    while stack:
        o = stack.pop()
        if id(o) in seen or isinstance(o, skip):
            continue
        seen.add(id(o))
        if id(o) in targets:
            hit = True
            break
        stack.extend(gc.get_referents(o))
    return direct or hit


def finding_2():
    """After ANY copy-mode middleware (even the no-op base BlockMiddleware) the input library with a
    duplicate block is not `==` to its prior deep copy: Block.__eq__ compares the plain Exception of
    Duplicate*Block by identity, deepcopy re-creates it (and Library has no __eq__ at all)."""
    violated = False
    for doc in ("@a{k, t={x}}\n@a{k, t={y}}", "@a{k, t={x}, t={y}}"):
        lib = bibtexparser.parse_string(doc)
        prior = copy.deepcopy(lib)
        mw.BlockMiddleware(allow_inplace_modification=False).transform(lib)
        if not (lib.blocks == prior.blocks):
            violated = True
    return violated


def main():
    any_violated = False
    for n, f in enumerate((finding_1, finding_2), start=1):
        try:
            v = f()
        except Exception as e:  # a crash of the reproducer is not a violation
            print(f"FINDING {n}: holds (reproducer raised {e!r})")
            continue
        print(f"FINDING {n}: {'VIOLATED' if v else 'holds'}")
        any_violated = any_violated or v
    sys.exit(1 if any_violated else 0)


if __name__ == "__main__":
    main()
