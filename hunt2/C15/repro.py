"""Reproducers for the C15 hunt. Run with PYTHONPATH pointing at the library under test."""
import sys

from bibtexparser.library import Library
from bibtexparser.middlewares.month import MonthAbbreviationMiddleware
from bibtexparser.middlewares.month import MonthIntMiddleware
from bibtexparser.middlewares.month import MonthLongStringMiddleware
from bibtexparser.model import Entry
from bibtexparser.model import Field


def finding_1():
    """An out-of-range int month with more decimal digits than CPython's int->str limit
    makes the abbreviation and long-name middlewares raise (they format it into the
    metadata message); the statement demands: unchanged, same type, no exception."""
    limit = sys.get_int_max_str_digits() if hasattr(sys, "get_int_max_str_digits") else 0
    if limit == 0:
        return False  # no conversion limit in this interpreter: mechanism cannot trigger
    violated = False
    for value in (10**limit, -(10**limit), 10 ** (limit + 700)):
        for mw_cls in (MonthIntMiddleware, MonthAbbreviationMiddleware, MonthLongStringMiddleware):
            for inplace in (True, False):
                lib = Library([Entry("article", "k", [Field("month", value)])])
                try:
                    out = mw_cls(allow_inplace_modification=inplace).transform(lib)
                    got = out.entries[0]["month"]
                    if not (type(got) is int and got == value):
                        violated = True
                except Exception:
                    violated = True
    return violated


FINDINGS = [finding_1]

if __name__ == "__main__":
    any_violated = False
    for n, f in enumerate(FINDINGS, start=1):
        v = f()
        any_violated |= v
        print(f"FINDING {n}: {'VIOLATED' if v else 'holds'}")
    sys.exit(1 if any_violated else 0)
