#!/usr/bin/env python
"""Reproducers for property C01.  Run as:
    PYTHONPATH=/tmp/wti-C01 /venv/bin/python /tmp/wti-C01/_hunt/repro.py
Prints `FINDING <n>: VIOLATED` or `FINDING <n>: holds`; exit code 1 if any is violated."""
import logging
import os
import subprocess
import sys
import time

logging.disable(logging.CRITICAL)
import bibtexparser  # noqa: E402

violated = False


def report(n, bad, detail):
    global violated
    violated = violated or bad
    print(f"FINDING {n}: {'VIOLATED' if bad else 'holds'}  -- {detail}")


# ---------------------------------------------------------------- finding 1
# A syntax error (a field name that is followed by neither `=` nor a value, directly before the
# closing brace of the entry) surfaces nowhere: no failed block, no error, and the text is dropped
# when the library is written.  The same junk one field earlier IS turned into a failed block.
def finding1():
    bad_inputs = [
        "@a{k, junk}",
        "@a{k, t = {x}, junk}",
        "@article{k,\n  title = {x},\n  junk Jane Doe\n}",  # '=' and delimiters forgotten in the last field
        "@article{k,\n  title = {x},\n  % junk: a remark inside the entry\n}",
    ]
    details = []
    bad = False
    for s in bad_inputs:
        lib = bibtexparser.parse_string(s)
        out = bibtexparser.write_string(lib)
        silently_lost = len(lib.failed_blocks) == 0 and "junk" not in out
        bad = bad or silently_lost
        details.append(f"{s!r}: failed_blocks={len(lib.failed_blocks)} written={out!r}")
    # control: same junk in a non-final position is reported as failed block
    ctl = bibtexparser.parse_string("@a{k, junk, t = {x}}")
    details.append(f"control '@a{{k, junk, t = {{x}}}}': failed_blocks={len(ctl.failed_blocks)}")
    report(1, bad, " | ".join(details))


# ---------------------------------------------------------------- finding 2
# @string expansion by value: n/2 value lines in one @string + n/2 one-line entries referencing it
# => parse_string/write_string need Theta(n^2) memory, time and output.  For the 10^5-line member of
# the family (1.4 MB of valid BibTeX) ~25 GB are needed in parse_string and ~75 GB in write_string,
# i.e. MemoryError / OOM kill.  Shown (a) by the growth of the output size and (b) by running the
# 10^5-line input in a child process whose address space is capped at 4 GiB (cap protects the host).
FAM = (
    "def fam(n):\n"
    "    h = n // 2\n"
    "    return '@string{s = {' + 'xxxxxxxxx\\n' * h + '}}\\n' + "
    "''.join('@a{k%d, t = s}\\n' % i for i in range(h))\n"
)


def finding2():
    ns = {}
    exec(FAM, ns)
    sizes = {}
    times = {}
    for n in (2000, 8000):
        s = ns["fam"](n)
        t = time.time()
        lib = bibtexparser.parse_string(s)
        out = bibtexparser.write_string(lib)
        times[n] = time.time() - t
        sizes[n] = (len(s), len(out))
        del lib, out
    ratio_in = sizes[8000][0] / sizes[2000][0]
    ratio_out = sizes[8000][1] / sizes[2000][1]
    child = (
        "import resource, logging, sys\n"
        "cap = 4 * 1024**3\n"
        "resource.setrlimit(resource.RLIMIT_AS, (cap, cap))\n"
        "logging.disable(logging.CRITICAL)\n"
        "import bibtexparser\n" + FAM + "s = fam(100000)\n"
        "stage = 'parse_string'\n"
        "try:\n"
        "    lib = bibtexparser.parse_string(s)\n"
        "    stage = 'write_string'\n"
        "    out = bibtexparser.write_string(lib)\n"
        "    print('RETURNED', len(out))\n"
        "except MemoryError:\n"
        "    print('MemoryError in', stage, 'input bytes', len(s), 'lines', s.count(chr(10)))\n"
    )
    env = dict(os.environ)
    p = subprocess.run([sys.executable, "-c", child], capture_output=True, text=True, env=env, timeout=280)
    child_out = (p.stdout.strip() or p.stderr.strip()[-200:])
    bad = ratio_out > 2.5 * ratio_in and "MemoryError" in child_out
    report(
        2,
        bad,
        f"input x{ratio_in:.1f} -> output x{ratio_out:.1f} (sizes {sizes}); "
        f"10^5-line input under 4 GiB cap: {child_out}",
    )


finding1()
finding2()
sys.exit(1 if violated else 0)
