#!/usr/bin/env python
"""Reproducers for the C14 hunt. Run with PYTHONPATH=/tmp/wti-C14 /venv/bin/python repro.py"""
import copy
import logging
import sys

logging.disable(logging.CRITICAL)

import bibtexparser
from bibtexparser.middlewares import MergeCoAuthors
from bibtexparser.middlewares import MergeNameParts
from bibtexparser.middlewares import SeparateCoAuthors
from bibtexparser.middlewares import SplitNameParts


def parse(doc):
    return bibtexparser.parse_string(doc, append_middleware=[SeparateCoAuthors(), SplitNameParts()])


def write(lib):
    return bibtexparser.write_string(lib, prepend_middleware=[MergeNameParts(), MergeCoAuthors()])


def finding_1():
    """parse, write, write again on the same library (object reuse)."""
    doc = "@article{k, author = {Donald E. Knuth and Leslie Lamport}}"
    lib = parse(doc)
    names = copy.deepcopy(lib.entries[0]["author"])
    out1 = write(lib)
    ok_first = parse(out1).entries[0]["author"] == names
    if not ok_first:
        return True  # even the single round trip fails
    if lib.entries[0]["author"] != names:
        print("  (library mutated by write_string: author is now %r)" % (lib.entries[0]["author"],))
    try:
        out2 = write(lib)
    except Exception as e:  # noqa
        print("  (second write_string raised %r)" % (e,))
        return True
    return parse(out2).entries[0]["author"] != names


def main():
    violated = False
    for n, f in enumerate([finding_1], start=1):
        v = f()
        violated = violated or v
        print("FINDING %d: %s" % (n, "VIOLATED" if v else "holds"))
    return 1 if violated else 0


if __name__ == "__main__":
    sys.exit(main())
