"""Reproducers for the C20 hunt.  Run:  PYTHONPATH=/tmp/wti-C20 /venv/bin/python repro.py"""
import io
import os
import subprocess
import sys
import tempfile
import textwrap

violated = []


def report(n, is_violated, detail=""):
    print("FINDING %d: %s%s" % (n, "VIOLATED" if is_violated else "holds", (" -- " + detail) if detail else ""))
    if is_violated:
        violated.append(n)


# ---------------------------------------------------------------------------
# FINDING 1: write_file(path) opens the path with open(file, "w") - no encoding argument - i.e. with the
# locale's preferred encoding.  Under a non-UTF-8 locale (here: LC_ALL=C with UTF-8 mode / locale coercion
# switched off; the same happens for e.g. an ISO-8859-1 or GBK locale with characters outside that charset)
# a library with non-ASCII text cannot be written to a path: UnicodeEncodeError, and the target file has
# already been truncated.  The same library written to a file object works, and write_string works.
child = textwrap.dedent(
    r'''
    import io, os, sys, tempfile, locale
    import bibtexparser
    lib = bibtexparser.parse_string("@article{k, author = {\u51ef\u6492 \xe9}}\n")
    text = bibtexparser.write_string(lib)
    d = tempfile.mkdtemp()
    p = os.path.join(d, "out.bib")
    with open(p, "wb") as fh:
        fh.write(b"previous content")
    sio = io.StringIO()
    bibtexparser.write_file(sio, lib)
    assert sio.getvalue() == text
    try:
        bibtexparser.write_file(p, lib)
    except UnicodeEncodeError as e:
        print("VIOLATED", locale.getpreferredencoding(False), "size-after=%d" % os.path.getsize(p))
        sys.exit(0)
    # written: is it what parse_file (default UTF-8) reads back?
    back = open(p, "rb").read()
    print("holds" if back == text.encode("utf-8") else "VIOLATED bytes differ", locale.getpreferredencoding(False))
    '''
)
env = dict(os.environ)
env.update({"LC_ALL": "C", "PYTHONUTF8": "0", "PYTHONCOERCECLOCALE": "0"})
env.pop("PYTHONIOENCODING", None)
out = subprocess.run([sys.executable, "-c", child], env=env, capture_output=True, text=True)
report(1, out.stdout.startswith("VIOLATED"), (out.stdout.strip() or out.stderr.strip()[-200:]))

# ---------------------------------------------------------------------------
# FINDING 2 (reading-dependent): write_file's stack arguments are called parse_stack / append_middleware and
# documented "List of middleware to append to the default stack", but the addition is PREpended (it runs before
# the default write stack), and the write_string names (unparse_stack / prepend_middleware) are rejected.
import bibtexparser
from bibtexparser.middlewares.middleware import BlockMiddleware


class Tag(BlockMiddleware):
    def transform_entry(self, entry, library):
        for f in entry.fields:
            f.value = f.value + "<tag>"
        return entry


lib = bibtexparser.parse_string("@article{k, a = {v}}\n")
sio = io.StringIO()
bibtexparser.write_file(sio, lib, append_middleware=[Tag(allow_inplace_modification=False)])
appended_semantics = "{v}<tag>" in sio.getvalue()  # default stack first, then the addition ("append")
prepended_semantics = "{v<tag>}" in sio.getvalue()
try:
    bibtexparser.write_file(io.StringIO(), lib, prepend_middleware=[Tag(allow_inplace_modification=False)])
    kw_ok = True
except TypeError:
    kw_ok = False
report(2, (prepended_semantics and not appended_semantics) and not kw_ok,
       "write_file(append_middleware=[m]) runs m BEFORE the default stack; prepend_middleware=/unparse_stack= rejected")

sys.exit(1 if violated else 0)
